(* C10 — the trees extracted from the chart (parse_paths / parse_forest / extract_trees) are raw
   derivation trees of the single-character grammar spelling exactly the item's span; together
   with EarleyPrune.prune_ok: every returned tree is a valid derivation tree of g for the input. *)
From ISLA Require Import Grammar GrammarFacts Earley EarleyFacts EarleyPrune EarleyTop.
From Coq Require Import Lia PeanoNat.

(* ---------------- list combinators of the model ---------------- *)
Lemma mapM_Forall2 {A B} (f : A -> option B) l : forall r,
  mapM f l = Some r -> Forall2 (fun x y => f x = Some y) l r.
Proof.
  induction l as [|x l IH]; intros r H; simpl in H.
  - inversion H; constructor.
  - destruct (f x) as [y|] eqn:Ex; [|discriminate].
    destruct (mapM f l) as [ys|] eqn:El; [|discriminate].
    inversion H; subst. constructor; [exact Ex | apply IH; reflexivity].
Qed.

Lemma product_In {A} (ls : list (list A)) : forall xs,
  In xs (product ls) -> Forall2 (fun x l => In x l) xs ls.
Proof.
  induction ls as [|l ls IH]; intros xs H; simpl in H.
  - destruct H as [<-|[]]. constructor.
  - apply in_flat_map in H as (x & Hx & H). apply in_map_iff in H as (xs' & <- & Hxs').
    constructor; [exact Hx | apply IH; exact Hxs'].
Qed.

Lemma Forall2_In_r {A B} (R : A -> B -> Prop) l r y :
  Forall2 R l r -> In y r -> exists x, In x l /\ R x y.
Proof.
  induction 1 as [|x y' l r HR HF IH]; intro Hin; [destruct Hin|].
  destruct Hin as [<-|Hin].
  - exists x. split; [left; reflexivity | exact HR].
  - destruct (IH Hin) as (x0 & Hx0 & HR0). exists x0. split; [right; exact Hx0 | exact HR0].
Qed.

Lemma Forall2_compose {A B C} (R : A -> B -> Prop) (S : C -> B -> Prop) (T : A -> C -> Prop) l m r :
  (forall a b c, R a b -> S c b -> T a c) -> Forall2 R l m -> Forall2 S r m -> Forall2 T l r.
Proof.
  intros H H1. revert r. induction H1 as [|a b l m HR HF IH]; intros r H2; inversion H2; subst; constructor.
  - eapply H; eauto.
  - apply IH. assumption.
Qed.

Lemma Forall2_rev' {A B} (R : A -> B -> Prop) l r : Forall2 R l r -> Forall2 R (rev l) (rev r).
Proof.
  induction 1 as [|x y l r HR HF IH]; simpl; [constructor|].
  apply Forall2_app; [exact IH | constructor; [exact HR | constructor]].
Qed.

Lemma Forall2_rev_l {A B} (R : A -> B -> Prop) l r : Forall2 R (rev l) r -> Forall2 R l (rev r).
Proof.
  intro H. apply Forall2_rev' in H. rewrite rev_involutive in H. exact H.
Qed.

Lemma In_firstn {A} (k : nat) (l : list A) x : In x (firstn k l) -> In x l.
Proof.
  revert l; induction k as [|k IH]; intros l H; simpl in H; [destruct H|].
  destruct l as [|y l]; [destruct H|]. destruct H as [H|H]; [left; exact H | right; apply IH; exact H].
Qed.

Section Trees.
  Variable g : grammar.
  Variable cstart start : str.
  Variable w : str.
  Variable chart : list column.
  Hypothesis Hgood : good_grammar g.
  Hypothesis Hone : Nat.eqb (length (alts g cstart)) 1 = true.     (* no "<>" rule *)
  Let cg := cgram g cstart.
  Hypothesis Hchart : chart_ok cg w start chart.
  (* every finished item with a non-empty right-hand side has at least one parse path
     (a closure property of the filled chart that is NOT proved here) *)
  Definition forest_total : Prop :=
    forall it e, In it (nth e chart []) -> finished it = true -> iexpr it <> [] ->
                 ppaths cg chart w (iorg it) (rev (iexpr it)) e <> [].
  Hypothesis Hforest : forest_total.

  Lemma cg_sct : cg = sct g.
  Proof. unfold cg, cgram. rewrite Hone. reflexivity. Qed.
  Lemma cg_def A : defined cg A = defined g A.
  Proof. rewrite cg_sct. unfold sct. apply defined_map. Qed.
  Lemma cg_alt A : alts cg A = map (sct_alt g) (alts g A).
  Proof. rewrite cg_sct. unfold sct. apply alts_map. Qed.

  Lemma col_ok e it : In it (nth e chart []) -> item_ok cg w start e it.
  Proof.
    intro Hin. destruct Hchart as [Hl Hok].
    destruct (nth_error chart e) as [col|] eqn:E.
    - pose proof (Hok e col E) as HF. rewrite Forall_forall in HF. apply HF.
      rewrite (nth_error_nth _ _ _ E) in Hin. exact Hin.
    - apply nth_error_None in E. rewrite nth_overflow in Hin by exact E. destruct Hin.
  Qed.

  Definition el_ok (var : str) (st til : nat) (el : pelem) : Prop :=
    match el with
    | PT c => c = var /\ exists ch, var = [ch] /\ nth_error w st = Some ch /\ til = S st
    | PN s e' => e' = til /\ In s (nth til chart []) /\ finished s = true /\ iname s = var /\ iorg s = st
    end.

  Inductive path_ok (frm : nat) : list str -> nat -> list pelem -> Prop :=
  | po_nil : path_ok frm [] frm []
  | po_cons : forall var e til el st pe,
      el_ok var st til el -> path_ok frm e st pe -> path_ok frm (var :: e) til (el :: pe).

  Lemma ppaths_ok frm : forall rexpr til pe,
    In pe (ppaths cg chart w frm rexpr til) -> path_ok frm rexpr til pe.
  Proof.
    induction rexpr as [|var e IH]; intros til pe H; simpl in H.
    - destruct (Nat.eqb til frm) eqn:E; [|destruct H].
      destruct H as [<-|[]]. apply Nat.eqb_eq in E. subst. constructor.
    - apply in_flat_map in H as ([el st] & Hes & H). simpl in H.
      apply in_map_iff in H as (pe' & <- & Hpe'). apply (po_cons frm var e til el st pe'); [|apply IH; exact Hpe'].
      destruct (defined cg var).
      + apply in_map_iff in Hes as (s & E & Hs). inversion E; subst.
        apply filter_In in Hs as [Hs Hc]. apply andb_true_iff in Hc as [Hf Hn].
        apply str_eqb_eq in Hn. simpl. repeat split; assumption.
      + destruct til as [|t']; [destruct Hes|].
        destruct (nth_error w t') as [c|] eqn:En; [|destruct Hes].
        destruct (str_eqb var [c]) eqn:Ev; [|destruct Hes].
        destruct Hes as [E|[]]. inversion E; subst. apply str_eqb_eq in Ev. simpl.
        split; [reflexivity|]. exists c. repeat split; assumption.
  Qed.

  Definition span_ok (var : str) (st til : nat) (k : tree) : Prop :=
    ctree g k /\ lbl k = var /\ yield k = sub w st til /\ st <= til.

  Lemma path_kids frm : forall rexpr til pe ks,
    path_ok frm rexpr til pe ->
    Forall2 (fun el k => forall var st til', el_ok var st til' el -> span_ok var st til' k) pe ks ->
    map lbl ks = rexpr /\ flat_map yield (rev ks) = sub w frm til /\ Forall (ctree g) ks /\ frm <= til.
  Proof.
    intros rexpr til pe ks Hp. revert ks.
    induction Hp as [|var e til el st pe Hel Hp IH]; intros ks HF; inversion HF as [|el' k pe' ks' Hk HF']; subst.
    - simpl. rewrite sub_nil. repeat split; [constructor | lia].
    - destruct (IH ks' HF') as (Hl & Hy & Hc & Hle).
      destruct (Hk var st til Hel) as (Hck & Hlk & Hyk & Hst).
      simpl. rewrite Hlk, Hl. repeat split.
      + rewrite flat_map_app. simpl. rewrite app_nil_r, Hy, Hyk. apply sub_app; assumption.
      + constructor; assumption.
      + lia.
  Qed.

  Definition raw_ok (it : item) (e : nat) (t : tree) : Prop :=
    ctree g t /\ lbl t = iname it /\ yield t = sub w (iorg it) e.

  Lemma yield_leaf_char c : yield (leaf [c]) = [c].
  Proof. unfold leaf. simpl. rewrite andb_false_r. reflexivity. Qed.

  Theorem trees_sound : forall fuel it e ts,
    In it (nth e chart []) -> finished it = true ->
    trees fuel cg chart w it e = Some ts -> forall t, In t ts -> raw_ok it e t.
  Proof.
    induction fuel as [|f IH]; intros it e ts Hin Hfin H t Ht; simpl in H; [discriminate|].
    pose proof (col_ok e it Hin) as (Hoe & Hew & Hdef & Hexpr & Hder & _).
    rewrite cg_def in Hdef. rewrite cg_alt in Hexpr. apply in_map_iff in Hexpr as (al & Eal & Hal).
    destruct Hgood as (Hk & Htok & Hadj).
    assert (Hdone : firstn (idot it) (iexpr it) = iexpr it).
    { apply firstn_all2. unfold finished in Hfin. apply Nat.leb_le in Hfin. exact Hfin. }
    rewrite Hdone in Hder.
    destruct (iexpr it) as [|x0 xs] eqn:Ee.
    - (* epsilon rule *)
      inversion H; subst ts. destruct Ht as [<-|[]].
      assert (al = []).
      { apply (sct_alt_nil g al); [|exact Eal]. intros x Hx. apply (Htok (iname it) al x Hal Hx). }
      subst al. inversion Hder; subst. unfold raw_ok, leaf. simpl. rewrite (Hk _ Hdef).
      repeat split; try congruence.
      apply (ct_node g (iname it) [] []); [exact Hdef | exact Hal | reflexivity | constructor].
    - rewrite <- Ee in *.
      destruct (ppaths cg chart w (iorg it) (rev (iexpr it)) e) as [|pe0 pes0] eqn:Ep.
      + exfalso. apply (Hforest it e Hin Hfin); [rewrite Ee; discriminate | exact Ep].
      + rewrite <- Ep in H. clear Ep pe0 pes0.
        remember (ppaths cg chart w (iorg it) (rev (iexpr it)) e) as pes eqn:Ep.
        match type of H with option_map _ ?m = _ => destruct m as [tss|] eqn:Em end; [|discriminate].
        simpl in H. inversion H; subst ts. apply in_concat in Ht as (l & Hl & Htl).
        destruct (Forall2_In_r _ _ _ _ (mapM_Forall2 _ _ _ Em) Hl) as (pe & Hpe & HF).
        simpl in HF.
        match type of HF with option_map _ ?m = _ => destruct m as [kss|] eqn:Ek end; [|discriminate].
        simpl in HF. inversion HF; subst l. apply in_map_iff in Htl as (kids & <- & Hkids).
        rewrite Ep in Hpe. apply ppaths_ok in Hpe.
        pose proof (mapM_Forall2 _ _ _ Ek) as F1. pose proof (product_In _ _ Hkids) as F2.
        assert (F3 : Forall2 (fun el k => forall var st til', el_ok var st til' el -> span_ok var st til' k)
                             (rev pe) kids).
        { eapply Forall2_compose; [|exact F1|exact F2].
          intros el l k Hel Hk' var st til' Hok. simpl in Hel. destruct el as [c|s e'].
          - inversion Hel; subst l. destruct Hk' as [<-|[]].
            destruct Hok as (-> & ch & -> & Hn & ->). unfold span_ok.
            repeat split; [apply ct_leaf | | lia].
            rewrite yield_leaf_char. rewrite (sub_snoc w st st ch Hn (le_n _)), sub_nil. reflexivity.
          - destruct Hok as (-> & Hs & Hfs & Hns & Hos).
            destruct (IH s til' l Hs Hfs Hel k Hk') as (Hc & Hlb & Hy).
            pose proof (col_ok til' s Hs) as (Hle & _).
            unfold span_ok. rewrite <- Hns, <- Hos. repeat split; assumption. }
        apply Forall2_rev_l in F3.
        destruct (path_kids _ _ _ _ _ Hpe F3) as (Hl' & Hy' & Hc' & _).
        rewrite rev_involutive in Hy'. rewrite map_rev in Hl'.
        apply (f_equal (@rev str)) in Hl'. rewrite !rev_involutive in Hl'.
        unfold raw_ok. simpl. repeat split.
        * apply (ct_node g (iname it) al kids); [exact Hdef | exact Hal | congruence |].
          apply Forall_rev in Hc'. rewrite rev_involutive in Hc'. exact Hc'.
        * destruct kids as [|k0 kids']; [|exact Hy'].
          simpl in Hl'. rewrite Ee in Hl'. discriminate.
  Qed.
End Trees.

(* ---------------- executable form of the forest hypothesis ---------------- *)
Definition is_nil {A} (l : list A) : bool := match l with [] => true | _ => false end.

Definition forest_totalb (cg : grammar) (w : str) (chart : list column) : bool :=
  forallb (fun ec => forallb (fun it => negb (finished it) || is_nil (iexpr it)
                                        || negb (is_nil (ppaths cg chart w (iorg it) (rev (iexpr it)) (fst ec))))
                             (snd ec))
          (combine (seq 0 (length chart)) chart).

Lemma combine_seq_In {A} (l : list A) : forall s e x,
  nth_error l e = Some x -> In (s + e, x) (combine (seq s (length l)) l).
Proof.
  induction l as [|y l IH]; intros s e x H; [destruct e; discriminate|].
  destruct e as [|e]; simpl in *.
  - inversion H; subst. left. f_equal. lia.
  - right. replace (s + S e) with (S s + e) by lia. apply IH. exact H.
Qed.

Lemma forest_totalb_sound g cstart w chart :
  forest_totalb (cgram g cstart) w chart = true -> forest_total g cstart w chart.
Proof.
  intros H it e Hin Hfin Hne. unfold forest_totalb in H. rewrite forallb_forall in H.
  destruct (nth_error chart e) as [col|] eqn:E.
  - rewrite (nth_error_nth _ _ _ E) in Hin.
    specialize (H (e, col) (combine_seq_In chart 0 e col E)). simpl in H.
    rewrite forallb_forall in H. specialize (H it Hin). rewrite Hfin in H. simpl in H.
    intro Hp. rewrite Hp in H. destruct (iexpr it) as [|x xs]; [congruence | discriminate H].
  - apply nth_error_None in E. rewrite nth_overflow in Hin by exact E. destruct Hin.
Qed.

(* ---------------- parse_sound ---------------- *)
Theorem parse_sound fxA fxB fuel g cstart start w k ts t :
  good_grammar g -> NoDup (map fst g) -> defined g WRAP = false -> defined g start = true ->
  K_multistart g cstart = false ->
  (fxA = true \/ K_multistart g start = false) ->
  (fxB = true \/ K_recstart g cstart start = false) ->
  (forall chart, chart_of fxA fuel (cgram g cstart) start w = Ok chart ->
                 forest_totalb (cgram g cstart) w chart = true) ->
  earley_parse fxA fxB fuel g cstart start w k = Ok ts -> In t ts ->
  wf_tree g t /\ is_openT t = false /\ lbl t = start /\ yield t = w /\ L g start w.
Proof.
  intros Hgood Hnd Hw Hds Hc HgA HgB Hfor H Hin. unfold earley_parse in H. rewrite Hw in H.
  destruct (chart_of fxA fuel (cgram g cstart) start w) as [chart|e0] eqn:Hch; [|discriminate].
  destruct (find (accepting fxB start) (last chart [])) as [st|] eqn:Hfind; [|discriminate].
  destruct (trees fuel (cgram g cstart) chart w st (length w)) as [ts0|] eqn:Htr; [|discriminate].
  inversion H; subst ts. apply In_firstn in Hin. apply in_map_iff in Hin as (t0 & <- & Ht0).
  apply find_some in Hfind as [Hst Hacc].
  pose proof (chart_sound g cstart Hgood Hnd Hw fxA fuel start w chart Hds HgA Hch) as Hok.
  assert (Hone : Nat.eqb (length (alts g cstart)) 1 = true).
  { unfold K_multistart in Hc. apply negb_false_iff in Hc. exact Hc. }
  assert (Hcol : nth (length w) chart [] = last chart []).
  { destruct Hok as [Hl _]. apply nth_error_nth. apply last_nth. exact Hl. }
  rewrite <- Hcol in Hst.
  unfold accepting in Hacc. apply andb_true_iff in Hacc as [Hacc Ho].
  apply andb_true_iff in Hacc as [Hn Hf]. apply str_eqb_eq in Hn.
  pose proof (forest_totalb_sound g cstart w chart (Hfor chart eq_refl)) as Hft.
  destruct (trees_sound g cstart start w chart Hgood Hone Hok Hft fuel st (length w) ts0 Hst Hf Htr t0 Ht0)
    as (Hct & Hlb & Hy).
  assert (Horg : iorg st = 0).
  { pose proof (col_ok g cstart start w chart Hok (length w) st Hst) as (_ & _ & _ & _ & _ & [[_ H0]|Hocc]);
      [exact H0|].
    destruct HgB as [Hfx|Hno].
    - subst fxB. simpl in Ho. apply Nat.eqb_eq in Ho. exact Ho.
    - unfold K_recstart in Hno. rewrite Hn in Hocc. congruence. }
  rewrite Horg, sub_full in Hy. rewrite Hn in Hlb.
  destruct (prune_ok g t0 Hgood Hct) as (Hwf & Hcl & Hl' & Hy'); [rewrite Hlb; exact Hds|].
  assert (HL : L g start w).
  { pose proof (wf_closed_yield g (prune g t0) Hwf Hcl) as HLL. rewrite Hl', Hy', Hlb, Hy in HLL. exact HLL. }
  repeat split; try assumption; congruence.
Qed.

(* ---------------- the boolean grammar class implies good_grammar ---------------- *)
Lemma canonical_form_good g : canonical_form g = true -> good_grammar g /\ defined g WRAP = false.
Proof.
  unfold canonical_form. intro H. apply andb_true_iff in H as [H Hw]. apply andb_true_iff in H as [Hk Ha].
  apply negb_true_iff in Hw. split; [|exact Hw].
  rewrite forallb_forall in Hk, Ha.
  assert (Hal : forall A al, In al (alts g A) ->
            forallb (fun s => match s with [] => false | _ => Bool.eqb (is_nt s) (defined g s) end) al = true
            /\ no_adjacent_terminals al = true).
  { intros A al Hin. destruct (alts_in g A al Hin) as (r & Hr & Hal).
    specialize (Ha r Hr). rewrite forallb_forall in Ha. specialize (Ha al Hal).
    apply andb_true_iff in Ha. exact Ha. }
  split; [|split].
  - intros A HA. unfold defined in HA. apply existsb_exists in HA as (r & Hr & E).
    apply str_eqb_eq in E. subst A. apply Hk. exact Hr.
  - intros A al s Hin Hs. destruct (Hal A al Hin) as [Ht _]. rewrite forallb_forall in Ht.
    specialize (Ht s Hs). split.
    + intro E. subst s. discriminate.
    + destruct s; [discriminate|]. apply eqb_prop. exact Ht.
  - intros A al Hin. apply (Hal A al Hin).
Qed.

(* ---------------- statements exported in Props/C10.v ---------------- *)
Theorem item_sound : forall g cstart fxA fuel start w chart,
  good_grammar g -> NoDup (map fst g) -> defined g WRAP = false -> defined g start = true ->
  (fxA = true \/ K_multistart g start = false) ->
  chart_of fxA fuel (cgram g cstart) start w = Ok chart ->
  length chart = S (length w) /\
  forall j col it, nth_error chart j = Some col -> In it col ->
    iorg it <= j /\ In (iexpr it) (alts (cgram g cstart) (iname it)) /\
    derives (cgram g cstart) (firstn (idot it) (iexpr it)) (sub w (iorg it) j).
Proof.
  intros g cstart fxA fuel start w chart Hg Hnd Hw Hds HgA H.
  destruct (chart_sound g cstart Hg Hnd Hw fxA fuel start w chart Hds HgA H) as [Hl Hok].
  split; [exact Hl|]. intros j col it Hj Hin. specialize (Hok j col Hj).
  rewrite Forall_forall in Hok. destruct (Hok it Hin) as (H1 & _ & _ & H2 & H3 & _). auto.
Qed.
Definition G_multi : grammar := [(START, [[[97]%N]; [[98]%N]])].                    (* <start> ::= "a" | "b" *)
Definition A_ : str := [60;97;62]%N.
Definition G_rec : grammar := [(START, [[A_]]); (A_, [[[120]%N; START; [122]%N]; [[121]%N]])].
Definition G_ex : grammar := [(START, [[A_]]); (A_, [[[97;98]%N; A_]; []])].   (* <start> ::= <a> ; <a> ::= "ab"<a> | "" *)
Theorem multistart_refuted :
  K_multistart G_multi START = true /\ canonical_form G_multi = true /\
  earley_parse false false 100 G_multi START START [97]%N 8 = Raise TypeErr /\
  L G_multi START [97]%N /\
  exists t, earley_parse true false 100 G_multi START START [97]%N 8 = Ok [t].
Proof.
  split; [reflexivity|]. split; [reflexivity|]. split; [vm_compute; reflexivity|]. split.
  - apply (Lb_sound 3). vm_compute. reflexivity.
  - eexists. vm_compute. reflexivity.
Qed.
Theorem recstart_refuted :
  K_recstart G_rec START START = true /\ K_multistart G_rec START = false /\ canonical_form G_rec = true /\
  (exists t, earley_parse false false 100 G_rec START START [120;121]%N 8 = Ok [t]
             /\ yield t = [121]%N /\ yield t <> [120;121]%N) /\
  earley_parse false true 100 G_rec START START [120;121]%N 8 = Raise SyntaxErr.
Proof.
  split; [reflexivity|]. split; [reflexivity|]. split; [reflexivity|]. split.
  - eexists. split; [vm_compute; reflexivity|]. split; [reflexivity | discriminate].
  - vm_compute. reflexivity.
Qed.
Example hypotheses_satisfiable :
  canonical_form G_ex = true /\ NoDup (map fst G_ex) /\ defined G_ex START = true /\
  K_multistart G_ex START = false /\ K_recstart G_ex START START = false /\
  (forall chart, chart_of false 100 (cgram G_ex START) START [97;98;97;98]%N = Ok chart ->
                 forest_totalb (cgram G_ex START) [97;98;97;98]%N chart = true) /\
  earley_accepts false false 100 G_ex START START [97;98;97;98]%N = Ok true /\
  exists t, earley_parse false false 100 G_ex START START [97;98;97;98]%N 8 = Ok [t]
            /\ wf_treeb G_ex t = true /\ yield t = [97;98;97;98]%N.
Proof.
  split; [reflexivity|]. split.
  { constructor; [intros [H|[]]; discriminate H | constructor; [intros [] | constructor]]. }
  split; [reflexivity|]. split; [reflexivity|]. split; [reflexivity|]. split.
  { intros chart H. vm_compute in H. inversion H; subst chart. vm_compute. reflexivity. }
  split; [vm_compute; reflexivity|].
  eexists. split; [vm_compute; reflexivity|]. split; reflexivity.
Qed.
