(* C12 — specification (completion) and proofs for the fuzzer model Grammar/Fuzz.v. *)
From ISLA Require Import Grammar GrammarFacts Fuzz.
From Coq Require Import Lia.

(* ---------------------------------------------------------------------------
   Specification: t' is a completion of t.
   Wherever t is expanded (children is not None) t' has the same label, the same id and
   the same number of children, recursively; an open leaf of t is replaced by an
   arbitrary valid tree of the grammar carrying the same label (its id is free: the
   fuzzer builds a fresh node).  Independent of the transition system expand1.
   --------------------------------------------------------------------------- *)
Inductive completion (g : grammar) : tree -> tree -> Prop :=
| c_open : forall A i t', lbl t' = A -> wf_tree g t' -> completion g (Node A i true []) t'
| c_node : forall l i ks ks', Forall2 (completion g) ks ks' ->
    completion g (Node l i false ks) (Node l i false ks').

(* ---- small list facts ---- *)
Lemma Forall2_diag {A} (R : A -> A -> Prop) l : Forall (fun x => R x x) l -> Forall2 R l l.
Proof. induction 1 as [|x l Hx _ IH]; constructor; assumption. Qed.

Lemma Forall2_app_mid {A} (R : A -> A -> Prop) l1 x y l2 :
  Forall2 R l1 l1 -> R x y -> Forall2 R l2 l2 -> Forall2 R (l1 ++ x :: l2) (l1 ++ y :: l2).
Proof. intros H1 Hxy H2. apply Forall2_app; [assumption | constructor; assumption]. Qed.

Lemma Forall2_len {A} (R : A -> A -> Prop) l l' : Forall2 R l l' -> length l = length l'.
Proof. induction 1; simpl; congruence. Qed.

Lemma list_sum_app_mid l1 x l2 : list_sum (l1 ++ x :: l2) = list_sum l1 + x + list_sum l2.
Proof. rewrite list_sum_app. simpl. lia. Qed.

(* ---- grammar facts ---- *)
Lemma alts_defined g A a : In a (alts g A) -> defined g A = true.
Proof.
  induction g as [|[B al] g IH]; simpl; [contradiction|].
  destruct (str_eqb A B) eqn:E; simpl; [reflexivity|]. exact IH.
Qed.

Lemma alts_in_grammar g A : defined g A = true -> In (A, alts g A) g.
Proof.
  induction g as [|[B al] g IH]; simpl; [discriminate|].
  destruct (str_eqb A B) eqn:E; simpl.
  - intros _. left. apply str_eqb_eq in E. subst. reflexivity.
  - intro H. right. apply IH. exact H.
Qed.

Lemma alts_sub_grammar g A a : In a (alts g A) -> exists r, In r g /\ In a (snd r).
Proof.
  intro H. exists (A, alts g A). split; [|exact H].
  apply alts_in_grammar. eapply alts_defined; eauto.
Qed.

Lemma uses_definedb_sound g : uses_definedb g = true -> uses_defined g.
Proof.
  unfold uses_definedb, uses_defined. intros H A a s Ha Hs Hnt.
  apply alts_sub_grammar in Ha as (r & Hr & Har).
  rewrite forallb_forall in H. specialize (H r Hr).
  rewrite forallb_forall in H. specialize (H a Har).
  rewrite forallb_forall in H. specialize (H s Hs).
  rewrite Hnt in H. simpl in H. exact H.
Qed.

Lemma nonempty_altsb_sound g : nonempty_altsb g = true -> nonempty_alts g.
Proof.
  unfold nonempty_altsb, nonempty_alts. intros H A HA.
  apply alts_in_grammar in HA. rewrite forallb_forall in H. specialize (H _ HA). simpl in H.
  destruct (alts g A); [discriminate | discriminate].
Qed.

(* ---- structure of valid trees ---- *)
Lemma wf_kids g l i ks : wf_tree g (Node l i false ks) -> Forall (wf_tree g) ks.
Proof.
  intro H.
  inversion H as [A i' HA HD | w i' Hw | A i' ks' HA Hne Hin Hall | A i' HA Hin | A i' j HA Hin]; subst.
  - constructor.
  - assumption.
  - constructor.
  - constructor; [apply wf_term; reflexivity | constructor].
Qed.

Lemma wf_open_shape g l i ks : wf_tree g (Node l i true ks) -> ks = [] /\ is_nt l = true /\ defined g l = true.
Proof. intro H. inversion H; subst. auto. Qed.

Lemma wf_lbl_nil g t : wf_tree g t -> lbl t = [] -> exists i, t = Node [] i false [].
Proof.
  intros H E. inversion H as [A i HA HD | w i Hw | A i ks HA Hne Hin Hall | A i HA Hin | A i j HA Hin];
    subst; simpl in E; subst; try discriminate.
  exists i. reflexivity.
Qed.

Lemma wf_inner_nt g l i k ks : wf_tree g (Node l i false (k :: ks)) -> is_nt l = true /\ defined g l = true.
Proof.
  intro H. inversion H as [A i' HA HD | w i' Hw | A i' ks' HA Hne Hin Hall | A i' HA Hin | A i' j HA Hin]; subst.
  - split; [assumption | eapply alts_defined; eauto].
  - split; [assumption | eapply alts_defined; eauto].
Qed.

(* the shared key lemma: replacing one child of a valid node by a valid tree with the same
   label keeps the node valid *)
Lemma wf_child_subst g l i o ks1 k k' ks2 :
  wf_tree g (Node l i o (ks1 ++ k :: ks2)) -> wf_tree g k' -> lbl k' = lbl k ->
  wf_tree g (Node l i o (ks1 ++ k' :: ks2)).
Proof.
  intros H Hk' Hl.
  inversion H as [A i' HA HD | w i' Hw | A i' ks' HA Hne Hin Hall | A i' HA Hin | A i' j HA Hin]; subst.
  - destruct ks1; discriminate.
  - destruct ks1; discriminate.
  - apply wf_inner; [assumption | destruct ks1; discriminate | |].
    + rewrite map_app in *. simpl in *. rewrite Hl. assumption.
    + apply Forall_app in Hall as [H1 H2]. inversion H2; subst.
      apply Forall_app. split; [assumption | constructor; assumption].
  - destruct ks1; discriminate.
  - destruct ks1 as [|x ks1]; [|destruct ks1; discriminate].
    simpl in *. match goal with E : [_] = _ :: _ |- _ => inversion E; subst end.
    simpl in Hl. apply (wf_lbl_nil g k' Hk') in Hl as [i' ->].
    apply wf_eps_fuzzer; assumption.
Qed.

(* ---- completion: basic properties ---- *)
Lemma completion_lbl g t t' : completion g t t' -> lbl t' = lbl t.
Proof. intro H. inversion H; subst; simpl; auto. Qed.

Lemma Forall2_completion_lbl g ks ks' : Forall2 (completion g) ks ks' -> map lbl ks' = map lbl ks.
Proof.
  induction 1 as [|k k' ks ks' Hk _ IH]; simpl; [reflexivity|].
  rewrite IH. f_equal. eapply completion_lbl; eauto.
Qed.

Lemma completion_wf g t : forall t', wf_tree g t -> completion g t t' -> wf_tree g t'.
Proof.
  induction t as [l i o ks IH] using tree_ind'. intros t' Hwf Hc.
  inversion Hc as [A i' t0 Hl Hw | l' i' ks0 ks' HF]; subst; [assumption|].
  assert (HFw : Forall (wf_tree g) ks') .
  { pose proof (wf_kids _ _ _ _ Hwf) as Hk. clear Hwf Hc.
    induction HF as [|k k' ks ks' Hkk' _ IHF]; [constructor|].
    inversion IH; subst. inversion Hk; subst. constructor; [auto | apply IHF; assumption]. }
  inversion Hwf as [A i' HA HD | w i' Hw | A i' ks0 HA Hne Hin Hall | A i' HA Hin | A i' j HA Hin]; subst.
  - inversion HF; subst. apply wf_term. assumption.
  - apply wf_inner; try assumption.
    + intro E. subst. inversion HF; subst. contradiction.
    + rewrite (Forall2_completion_lbl _ _ _ HF). assumption.
  - inversion HF; subst. apply wf_eps_parser; assumption.
  - inversion HF as [|k k' r r' Hk Hr]; subst. inversion Hr; subst.
    inversion Hk as [|l' i'' ks0 ks'' HF0]; subst. inversion HF0; subst.
    apply wf_eps_fuzzer; assumption.
Qed.

Lemma completion_refl g t : wf_tree g t -> completion g t t.
Proof.
  induction t as [l i o ks IH] using tree_ind'. intro Hwf. destruct o.
  - destruct (wf_open_shape _ _ _ _ Hwf) as (-> & _ & _). apply c_open; [reflexivity | assumption].
  - apply c_node. apply Forall2_diag. pose proof (wf_kids _ _ _ _ Hwf) as Hk.
    rewrite Forall_forall in *. intros x Hx. apply IH; auto.
Qed.

Lemma completion_trans g t : forall u v,
  wf_tree g t -> completion g t u -> completion g u v -> completion g t v.
Proof.
  induction t as [l i o ks IH] using tree_ind'. intros u v Hwf Htu Huv.
  inversion Htu as [A i' t0 Hl Hw | l' i' ks0 ks' HF]; subst.
  - apply c_open.
    + apply (completion_lbl _ _ _ Huv).
    + eapply completion_wf; eauto.
  - inversion Huv as [|l' i' ks0 ks'' HF']; subst. apply c_node.
    pose proof (wf_kids _ _ _ _ Hwf) as Hk. clear Hwf Htu Huv.
    revert ks'' HF'. induction HF as [|k k' ks ks' Hkk' _ IHF]; intros ks'' HF'.
    + inversion HF'; subst. constructor.
    + inversion HF' as [|a b c d Hab Hcd]; subst. inversion IH; subst. inversion Hk; subst.
      constructor; [eauto | apply IHF; assumption].
Qed.

(* a closed tree has exactly one completion: itself *)
Lemma completion_closed_id g t : forall t', completion g t t' -> is_openT t = false -> t' = t.
Proof.
  induction t as [l i o ks IH] using tree_ind'. intros t' Hc Hcl.
  inversion Hc as [A i' t0 Hl Hw | l' i' ks0 ks' HF]; subst; [discriminate|].
  simpl in Hcl. f_equal. clear Hc.
  induction HF as [|k k' ks ks' Hkk' _ IHF]; [reflexivity|].
  simpl in Hcl. apply orb_false_iff in Hcl as [H1 H2]. inversion IH; subst.
  f_equal; [auto | apply IHF; assumption].
Qed.

(* what a completion means position by position: every expanded node of t is found at the
   same path in t' with the same label, id and arity *)
Lemma Forall2_nth_error {A} (R : A -> A -> Prop) l l' n x :
  Forall2 R l l' -> nth_error l n = Some x -> exists y, nth_error l' n = Some y /\ R x y.
Proof.
  intro H. revert n. induction H as [|a b l l' Hab _ IH]; intros [|n] E; simpl in *; try discriminate.
  - inversion E; subst. eauto.
  - apply IH. assumption.
Qed.

Theorem completion_keeps_expanded g : forall p t t' s,
  completion g t t' -> subtree t p = Some s -> opn s = false ->
  exists s', subtree t' p = Some s' /\ lbl s' = lbl s /\ tid s' = tid s /\ opn s' = false /\
             length (kids s') = length (kids s).
Proof.
  induction p as [|n p IH]; intros t t' s Hc Hs Ho.
  - simpl in Hs. inversion Hs; subst. inversion Hc as [A i t0 Hl Hw | l i ks ks' HF]; subst.
    + discriminate.
    + eexists. split; [reflexivity|]. simpl. repeat split. symmetry. eapply Forall2_len; eauto.
  - inversion Hc as [A i t0 Hl Hw | l i ks ks' HF]; subst; simpl in Hs.
    + destruct n; discriminate.
    + destruct (nth_error ks n) as [k|] eqn:E; [|discriminate].
      destruct (Forall2_nth_error _ _ _ _ _ HF E) as (k' & E' & Hk).
      destruct (IH _ _ _ Hk Hs Ho) as (s' & Hs' & Hrest).
      exists s'. simpl. rewrite E'. auto.
Qed.

(* ---- the acceptance procedure decides the specification ---- *)
Theorem is_completionb_spec g t : forall t', is_completionb g t t' = true <-> completion g t t'.
Proof.
  induction t as [l i o ks IH] using tree_ind'. intro t'. destruct o.
  - simpl. destruct ks as [|k ks].
    + rewrite andb_true_iff, str_eqb_eq, wf_treeb_spec. split.
      * intros [H1 H2]. apply c_open; assumption.
      * intro H. inversion H; subst. auto.
    + split; [discriminate | intro H; inversion H].
  - destruct t' as [l' i' o' ks']. simpl.
    rewrite !andb_true_iff, str_eqb_eq, N.eqb_eq, negb_true_iff.
    assert (HA : forall ks',
      (fix all2 (ks ks' : list tree) {struct ks} : bool :=
         match ks, ks' with
         | [], [] => true
         | k :: r, k' :: r' => is_completionb g k k' && all2 r r'
         | _, _ => false
         end) ks ks' = true <-> Forall2 (completion g) ks ks').
    { clear ks' l' i' o'. induction ks as [|k ks IHks]; intros [|k' ks'].
      - split; [constructor | reflexivity].
      - split; [discriminate | intro H; inversion H].
      - split; [discriminate | intro H; inversion H].
      - inversion IH as [|x r Hx Hr]; subst. rewrite andb_true_iff, (IHks Hr), Hx.
        split; [intros [Ha Hb]; constructor; assumption | intro H; inversion H; subst; auto]. }
    rewrite HA. split.
    + intros [[[-> ->] ->] HF]. apply c_node. assumption.
    + intro H. inversion H; subst. auto.
Qed.

Theorem accept_expand_sound g t out :
  accept_expand g t out = true ->
  wf_tree g out /\ is_openT out = false /\ completion g t out /\ lbl out = lbl t.
Proof.
  unfold accept_expand, closedb. rewrite !andb_true_iff, negb_true_iff, wf_treeb_spec, is_completionb_spec, str_eqb_eq.
  intros [[[H1 H2] H3] H4]. auto.
Qed.

(* ---- expansion_to_children builds the children of the chosen alternative ---- *)
Lemma children_of_lbl a ids : map lbl (children_of a ids) = a.
Proof. revert ids; induction a as [|s a IH]; intro ids; simpl; [reflexivity|]. rewrite IH. reflexivity. Qed.

Lemma children_of_wf g a ids :
  (forall s, In s a -> is_nt s = true -> defined g s = true) -> Forall (wf_tree g) (children_of a ids).
Proof.
  revert ids; induction a as [|s a IH]; intros ids H; simpl; constructor.
  - unfold mk_child. destruct (is_nt s) eqn:E.
    + apply wf_open; [assumption | apply H; simpl; auto].
    + apply wf_term. assumption.
  - apply IH. intros s' Hs'. apply H. simpl. auto.
Qed.

Lemma expand_here_wf g A j a ids :
  uses_defined g -> is_nt A = true -> In a (alts g A) ->
  wf_tree g (Node A j false (expansion_to_children a ids)).
Proof.
  intros Hud HA Ha. destruct a as [|s a'].
  - simpl. apply wf_eps_fuzzer; assumption.
  - change (expansion_to_children (s :: a') ids) with (children_of (s :: a') ids).
    apply wf_inner.
    + assumption.
    + simpl. discriminate.
    + rewrite children_of_lbl. assumption.
    + apply children_of_wf. intros s' Hs' Hnt. eapply Hud; eauto.
Qed.

(* ---- one expansion step keeps validity and yields a completion ---- *)
Lemma expand1_valid g t t' :
  uses_defined g -> expand1 g t t' -> wf_tree g t -> wf_tree g t' /\ completion g t t'.
Proof.
  intros Hud Hs. induction Hs as [A i j a ids Ha | l i ks1 k k' ks2 Hs IH]; intro Hwf.
  - destruct (wf_open_shape _ _ _ _ Hwf) as (_ & HA & _).
    assert (Hw : wf_tree g (Node A j false (expansion_to_children a ids))) by (apply expand_here_wf; assumption).
    split; [assumption | apply c_open; [reflexivity | assumption]].
  - pose proof (wf_kids _ _ _ _ Hwf) as Hk. apply Forall_app in Hk as [Hk1 Hk2].
    inversion Hk2 as [|x r Hkk Hk2']; subst.
    destruct (IH Hkk) as [Hw' Hc]. split.
    + eapply wf_child_subst; [exact Hwf | assumption | eapply completion_lbl; eauto].
    + apply c_node. apply Forall2_app_mid; [| assumption |]; apply Forall2_diag.
      * rewrite Forall_forall in *. intros x Hx. apply completion_refl; auto.
      * rewrite Forall_forall in *. intros x Hx. apply completion_refl; auto.
Qed.

(* C12 (fuzzer half): every run of the abstract fuzzer from a valid tree ends in a valid tree
   that is a completion of the input *)
Theorem expand_valid g t t' :
  uses_defined g -> wf_tree g t -> expand_star g t t' -> wf_tree g t' /\ completion g t t'.
Proof.
  intros Hud Hwf Hs. induction Hs as [t | t u v H1 _ IH].
  - split; [assumption | apply completion_refl; assumption].
  - destruct (expand1_valid _ _ _ Hud H1 Hwf) as [Hu Hc]. destruct (IH Hu) as [Hv Hc'].
    split; [assumption | eapply completion_trans; eauto].
Qed.

Corollary fuzz_expand_valid g t t' :
  uses_defined g -> wf_tree g t -> fuzz_expand g t t' ->
  wf_tree g t' /\ is_openT t' = false /\ completion g t t' /\ lbl t' = lbl t.
Proof.
  intros Hud Hwf [Hs Hcl]. destruct (expand_valid _ _ _ Hud Hwf Hs) as [H1 H2].
  repeat split; try assumption. eapply completion_lbl; eauto.
Qed.

(* a valid closed result is a sentence of the language of the root symbol *)
Corollary fuzz_expand_language g t t' :
  uses_defined g -> wf_tree g t -> fuzz_expand g t t' -> L g (lbl t) (yield t').
Proof.
  intros Hud Hwf H. destruct (fuzz_expand_valid _ _ _ Hud Hwf H) as (H1 & H2 & _ & H4).
  rewrite <- H4. apply wf_closed_yield; assumption.
Qed.

(* ---- progress: an open valid tree always offers a step ---- *)
Theorem expand_total g t :
  nonempty_alts g -> wf_tree g t -> is_openT t = true -> exists t', expand1 g t t'.
Proof.
  intro Hne. induction t as [l i o ks IH] using tree_ind'. intros Hwf Hop. destruct o.
  - destruct (wf_open_shape _ _ _ _ Hwf) as (-> & HA & HD).
    specialize (Hne _ HD). destruct (alts g l) as [|a al] eqn:E; [contradiction|].
    exists (Node l 0%N false (expansion_to_children a [])). apply e_here. rewrite E. simpl. auto.
  - simpl in Hop. apply existsb_exists in Hop as (k & Hin & Hk).
    apply in_split in Hin as (ks1 & ks2 & ->).
    pose proof (wf_kids _ _ _ _ Hwf) as Hks. rewrite Forall_forall in IH, Hks.
    assert (Hink : In k (ks1 ++ k :: ks2)) by (apply in_or_app; simpl; auto).
    destruct (IH k Hink (Hks k Hink) Hk) as [k' Hk'].
    exists (Node l i false (ks1 ++ k' :: ks2)). apply e_child. assumption.
Qed.

(* a closed tree offers no step: the loop `while tree.is_open()` stops exactly at normal forms *)
Lemma expand1_open g t t' : expand1 g t t' -> is_openT t = true.
Proof.
  induction 1 as [A i j a ids Ha | l i ks1 k k' ks2 Hs IH]; simpl; [reflexivity|].
  apply existsb_exists. exists k. split; [apply in_or_app; simpl; auto | assumption].
Qed.

Corollary normal_form_closed g t :
  nonempty_alts g -> wf_tree g t -> (is_openT t = false <-> forall t', ~ expand1 g t t').
Proof.
  intros Hne Hwf. split.
  - intros Hcl t' Hs. apply expand1_open in Hs. congruence.
  - intro Hnf. destruct (is_openT t) eqn:E; [|reflexivity].
    destruct (expand_total _ _ Hne Hwf E) as [t' Ht']. exfalso. eapply Hnf; eauto.
Qed.

(* ---- termination of the minimum-cost closing phase ---- *)
Section MinCost.
  Variable g : grammar.
  Variable cost : str -> nat.          (* Python: GrammarFuzzer.symbol_cost *)
  (* every symbol has an alternative whose nonterminals together cost less than the symbol
     (checked on Python's tables by cost_okb in every run of the correspondence) *)
  Hypothesis cost_ok : forall A, defined g A = true ->
    exists a, In a (alts g A) /\ alt_cost cost a < cost A.

  Lemma open_cost_children a ids :
    list_sum (map (open_cost cost) (expansion_to_children a ids)) = alt_cost cost a.
  Proof.
    destruct a as [|s a]; [reflexivity|].
    change (expansion_to_children (s :: a) ids) with (children_of (s :: a) ids).
    generalize (s :: a). clear s a. intro a. revert ids.
    induction a as [|s a IH]; intro ids; [reflexivity|].
    simpl. unfold alt_cost in *. simpl. rewrite IH. lia.
  Qed.

  Lemma expand1_min_sub t t' : expand1_min g cost t t' -> expand1 g t t'.
  Proof. induction 1; constructor; assumption. Qed.

  Lemma expand1_min_decreases t t' : expand1_min g cost t t' -> open_cost cost t' < open_cost cost t.
  Proof.
    induction 1 as [A i j a ids Ha Hlt | l i ks1 k k' ks2 Hs IH].
    - simpl. rewrite open_cost_children. lia.
    - simpl. rewrite !map_app. simpl. rewrite !list_sum_app_mid. lia.
  Qed.

  (* every min-cost run from t has at most open_cost(t) steps *)
  Theorem steps_min_bound n t t' : steps_min g cost n t t' -> n + open_cost cost t' <= open_cost cost t.
  Proof.
    induction 1 as [t | n t u v H1 _ IH]; [lia|]. apply expand1_min_decreases in H1. lia.
  Qed.

  Lemma expand_min_total t : wf_tree g t -> is_openT t = true -> exists t', expand1_min g cost t t'.
  Proof.
    induction t as [l i o ks IH] using tree_ind'. intros Hwf Hop. destruct o.
    - destruct (wf_open_shape _ _ _ _ Hwf) as (-> & HA & HD).
      destruct (cost_ok _ HD) as (a & Ha & Hlt).
      exists (Node l 0%N false (expansion_to_children a [])). apply em_here; assumption.
    - simpl in Hop. apply existsb_exists in Hop as (k & Hin & Hk).
      apply in_split in Hin as (ks1 & ks2 & ->).
      pose proof (wf_kids _ _ _ _ Hwf) as Hks. rewrite Forall_forall in IH, Hks.
      assert (Hink : In k (ks1 ++ k :: ks2)) by (apply in_or_app; simpl; auto).
      destruct (IH k Hink (Hks k Hink) Hk) as [k' Hk'].
      exists (Node l i false (ks1 ++ k' :: ks2)). apply em_child. assumption.
  Qed.

  (* the min-cost phase closes every valid tree, within open_cost(t) steps, whatever it picks *)
  Theorem mincost_terminates : uses_defined g -> forall t, wf_tree g t ->
    exists n t', steps_min g cost n t t' /\ is_openT t' = false /\ n <= open_cost cost t.
  Proof.
    intros Hud t. remember (open_cost cost t) as m eqn:Em. revert t Em.
    induction m as [m IHm] using lt_wf_ind. intros t Em Hwf.
    destruct (is_openT t) eqn:Eo.
    - destruct (expand_min_total t Hwf Eo) as [u Hu].
      pose proof (expand1_min_decreases _ _ Hu) as Hlt.
      destruct (expand1_valid _ _ _ Hud (expand1_min_sub _ _ Hu) Hwf) as [Hwu _].
      assert (Hm : open_cost cost u < m) by lia.
      destruct (IHm _ Hm u eq_refl Hwu) as (n & t' & Hst & Hcl & Hn).
      exists (S n), t'. split; [econstructor; eauto | split; [assumption | lia]].
    - exists 0, t. split; [constructor | split; [assumption | lia]].
  Qed.

  (* no infinite min-cost run *)
  Corollary mincost_no_long_run n t t' : steps_min g cost n t t' -> n <= open_cost cost t.
  Proof. intro H. apply steps_min_bound in H. lia. Qed.
End MinCost.

(* the executable check of the hypothesis on cost tables is sound *)
Lemma min_alts_sub ecost A al a : In a (min_alts ecost A al) -> In a al.
Proof. unfold min_alts. intro H. apply filter_In in H. tauto. Qed.

Lemma cost_okb_sound g cost ecost :
  cost_okb g cost ecost = true ->
  forall A, defined g A = true -> exists a, In a (alts g A) /\ alt_cost cost a < cost A.
Proof.
  unfold cost_okb. intros H A HA. apply alts_in_grammar in HA.
  rewrite forallb_forall in H. specialize (H _ HA). simpl in H.
  destruct (min_alts ecost A (alts g A)) as [|a ms] eqn:E; [discriminate|].
  exists a. split.
  - apply (min_alts_sub ecost A). rewrite E. simpl. auto.
  - simpl in H. apply andb_true_iff in H as [H _]. apply Nat.ltb_lt in H. exact H.
Qed.

(* ---- non-vacuity: concrete grammar and trees satisfying the hypotheses ---- *)
Definition ex_S : str := [60; 115; 62]%N.      (* <s> *)
Definition ex_A : str := [60; 97; 62]%N.       (* <a> *)
Definition ex_g : grammar := [(ex_S, [[ex_A; [120]%N; ex_S]; []]); (ex_A, [[[121]%N]; [ex_A; ex_A]])].
Definition ex_t : tree := Node ex_S 1 false [Node ex_A 2 true []; Node [120]%N 3 false []; Node ex_S 4 true []].
Definition ex_out : tree :=
  Node ex_S 1 false [Node ex_A 7 false [Node [121]%N 8 false []]; Node [120]%N 3 false [];
                     Node ex_S 9 false [Node [] 10 false []]].

Example ex_hyps : uses_definedb ex_g = true /\ nonempty_altsb ex_g = true /\ wf_treeb ex_g ex_t = true
                  /\ is_openT ex_t = true.
Proof. repeat split; reflexivity. Qed.

Example ex_run : fuzz_expand ex_g ex_t ex_out.
Proof.
  split; [|reflexivity].
  eapply es_step.
  { apply (e_child ex_g ex_S 1 [] (Node ex_A 2 true []) (Node ex_A 7 false [Node [121]%N 8 false []])
             [Node [120]%N 3 false []; Node ex_S 4 true []]).
    apply (e_here ex_g ex_A 2 7 [[121]%N] [8%N]). simpl. auto. }
  eapply es_step.
  { apply (e_child ex_g ex_S 1 [Node ex_A 7 false [Node [121]%N 8 false []]; Node [120]%N 3 false []]
             (Node ex_S 4 true []) (Node ex_S 9 false [Node [] 10 false []]) []).
    apply (e_here ex_g ex_S 4 9 [] [10%N]). simpl. auto. }
  apply es_refl.
Qed.

Example ex_accept : accept_expand ex_g ex_t ex_out = true.
Proof. reflexivity. Qed.

(* a tree that changes an id of an expanded node, or drops a kept child, is rejected *)
Example ex_reject :
  is_completionb ex_g ex_t
    (Node ex_S 5 false [Node ex_A 7 false [Node [121]%N 8 false []]; Node [120]%N 3 false [];
                        Node ex_S 9 false [Node [] 10 false []]]) = false
  /\ is_completionb ex_g ex_t
    (Node ex_S 1 false [Node ex_A 7 false [Node [121]%N 8 false []]; Node [120]%N 6 false [];
                        Node ex_S 9 false [Node [] 10 false []]]) = false.
Proof. split; reflexivity. Qed.

Definition ex_cost (s : str) : nat := if str_eqb s ex_S then 1 else if str_eqb s ex_A then 2 else 0.
Example ex_cost_ok : cost_okb ex_g ex_cost (fun A a => S (alt_cost ex_cost a)) = true.
Proof. reflexivity. Qed.
