(* C13 — model of isla/existential_helpers.py (tree insertion).  No proofs here.

   What is modelled (function by function, bugs included):
     DerivationTree.replace_path            -> replace_path / replace_at
     wrap_in_tree_starting_in               -> wrap
     compute_direct_embeddings              -> direct_embeddings
     make_leaves_open, path_to_tree         -> mlo, ptt_raw, path_to_tree
     children_with_at_most_one_parent       -> cwamop
     find_higher_up_insertion_points        -> higher_up
     connect_trees                          -> connect_trees
     insert_trees                           -> insert_trees
     compute_self_embeddings                -> self_embeddings
     compute_context_additions              -> context_additions
     insert_tree (next_path loop, add_to_result) -> insert_tree

   What is abstracted:
   * the grammar graph: its answers enter as FUNCTION PARAMETERS
       chain A B : option (list str)   symbols of graph.shortest_non_trivial_path(A,B),
                                        None iff not graph.reachable(A,B)
       pb A B    : list (list str)      paths_between(graph, A, B), in its order
     (in the correspondence they are tables read off the real GrammarGraph; in the
      theorems they are Section variables constrained only by "consecutive symbols are
      connected in the grammar").
   * fresh node ids: every node that the code creates with a fresh id from the global
     counter carries id 0 here.  Ids of host / inserted nodes are kept exactly.  The
     has_unique_ids() assertions are therefore not modelled.
   * structural_hash equality is modelled by structural equality (no hash collisions).
   * graph.tree_is_valid in assertions is modelled by wf_treeb (the stricter, verified
     checker): the model may raise AssertErr where the lenient library check passes. *)
From ISLA Require Export Grammar Outcome.
From Coq Require Import List NArith Bool Arith.
Import ListNotations.

(* ------------------------------------------------------------------ *)
(* tree surgery                                                        *)
(* ------------------------------------------------------------------ *)
Fixpoint set_nth {A} (l : list A) (i : nat) (x : A) : list A :=
  match l, i with
  | [], _ => []
  | _ :: l', O => x :: l'
  | y :: l', S i' => y :: set_nth l' i' x
  end.

(* replace_path; None = the path does not exist (Python: IndexError / TypeError) *)
Fixpoint replace_at (t : tree) (p : path) (r : tree) : option tree :=
  match p with
  | [] => Some r
  | i :: p' =>
      match nth_error (kids t) i with
      | None => None
      | Some c =>
          match replace_at c p' r with
          | None => None
          | Some c' => Some (Node (lbl t) (tid t) false (set_nth (kids t) i c'))
          end
      end
  end.

Definition replace_path (t : tree) (p : path) (r : tree) : res tree :=
  match replace_at t p r with Some x => Ok x | None => Raise IndexErr end.

Definition with_id (t : tree) (i : N) : tree := Node (lbl t) i (opn t) (kids t).

(* equality of trees including ids and openness *)
Fixpoint tree_eqb (a b : tree) {struct a} : bool :=
  match a, b with
  | Node l i o ks, Node l' i' o' ks' =>
      str_eqb l l' && N.eqb i i' && Bool.eqb o o' &&
      (fix go (xs ys : list tree) : bool :=
         match xs, ys with
         | [], [] => true
         | x :: xs', y :: ys' => tree_eqb x y && go xs' ys'
         | _, _ => false
         end) ks ks'
  end.

(* structural_hash equality: labels, openness, shape; ids ignored *)
Fixpoint struct_eqb (a b : tree) {struct a} : bool :=
  match a, b with
  | Node l _ o ks, Node l' _ o' ks' =>
      str_eqb l l' && Bool.eqb o o' &&
      (fix go (xs ys : list tree) : bool :=
         match xs, ys with
         | [], [] => true
         | x :: xs', y :: ys' => struct_eqb x y && go xs' ys'
         | _, _ => false
         end) ks ks'
  end.

(* results[structural_hash] = t  on an insertion-ordered dict *)
Fixpoint put (r : list tree) (t : tree) : list tree :=
  match r with
  | [] => [t]
  | x :: r' => if struct_eqb x t then t :: r' else x :: put r' t
  end.

(* find_node(id) is not None *)
Definition has_id (t : tree) (i : N) : bool := existsb (fun m => N.eqb (tid (snd m)) i) (nodes t).
(* all(new.find_node(n.id) is not None for n in old.paths()) *)
Definition ids_kept (old new : tree) : bool := forallb (fun n => has_id new (tid (snd n))) (nodes old).

Definition assert (b : bool) : res unit := if b then Ok tt else Raise AssertErr.

(* sequencing over lists with exceptions *)
Fixpoint mapM {A B} (f : A -> res B) (l : list A) : res (list B) :=
  match l with
  | [] => Ok []
  | x :: l' => bind (f x) (fun y => bind (mapM f l') (fun ys => Ok (y :: ys)))
  end.
Definition concatM {A B} (f : A -> res (list B)) (l : list A) : res (list B) :=
  bind (mapM f l) (fun ls => Ok (concat ls)).

(* ------------------------------------------------------------------ *)
(* wrap_in_tree_starting_in                                            *)
(* ------------------------------------------------------------------ *)
Definition mem (s : str) (a : alt) : bool := existsb (str_eqb s) a.
(* [a for a in grammar[A] if B in a] *)
Definition alts_with (g : grammar) (A B : str) : list alt := filter (mem B) (alts g A).
(* first alternative such that no other one is strictly shorter *)
Definition shortest_first (l : list alt) : option alt :=
  find (fun a => negb (existsb (fun a' => Nat.ltb (length a') (length a)) l)) l.
(* a.index(B) *)
Fixpoint index_of (B : str) (a : alt) : nat :=
  match a with
  | [] => 0
  | x :: a' => if str_eqb x B then 0 else S (index_of B a')
  end.
(* (sym, None if is_nonterminal(sym) else []) with a fresh id *)
Definition sib (s : str) : tree := Node s 0 (is_nt s) [].
Fixpoint fill (a : alt) (i : nat) (sub : tree) : list tree :=
  match a with
  | [] => []
  | s :: a' => match i with
               | O => sub :: map sib a'
               | S i' => sib s :: fill a' i' sub
               end
  end.

(* chain = A :: rest ; the last symbol of the chain is the root symbol of ins *)
Fixpoint wrap (g : grammar) (A : str) (rest : list str) (ins : tree) : res tree :=
  match rest with
  | [] => Ok (Node A 0 false [])
  | B :: rest' =>
      match shortest_first (alts_with g A B) with
      | None => Raise IndexErr
      | Some a =>
          bind (match rest' with [] => Ok ins | _ :: _ => wrap g B rest' ins end)
               (fun sub => Ok (Node A 0 false (fill a (index_of B a) sub)))
      end
  end.

Definition wrap_chain (g : grammar) (ch : list str) (ins : tree) : res tree :=
  match ch with
  | [] => Raise IndexErr
  | A :: rest => wrap g A rest ins
  end.

(* ------------------------------------------------------------------ *)
(* compute_direct_embeddings                                           *)
(* ------------------------------------------------------------------ *)
Definition graph_chain := str -> str -> option (list str).
Definition graph_paths := str -> str -> list (list str).

Definition reachable (chain : graph_chain) (A B : str) : bool :=
  match chain A B with Some _ => true | None => false end.

(* open leaves (children is None) from which the root symbol of ins is reachable *)
Definition embeddable (chain : graph_chain) (ins host : tree) : list (path * tree) :=
  filter (fun pt => opn (snd pt) && reachable chain (lbl (snd pt)) (lbl ins)) (nodes host).

Definition direct_step (g : grammar) (chain : graph_chain) (ins host : tree)
           (pt : path * tree) : res tree :=
  match chain (lbl (snd pt)) (lbl ins) with
  | None => Raise AssertErr
  | Some ch =>
      bind (wrap_chain g ch ins) (fun t =>
      bind (assert (str_eqb (lbl t) (lbl (snd pt)))) (fun _ =>
      bind (replace_path host (fst pt) (Node (lbl t) (tid (snd pt)) (opn t) (kids t))) (fun new =>
      bind (assert (ids_kept host new)) (fun _ => Ok new))))
  end.

Fixpoint direct_loop (g : grammar) (chain : graph_chain) (maxn : nat) (ins host : tree)
         (ms : list (path * tree)) (acc : list tree) : res (list tree) :=
  match ms with
  | [] => Ok acc
  | pt :: ms' =>
      if Nat.leb maxn (length acc) then Ok acc
      else bind (direct_step g chain ins host pt)
                (fun new => direct_loop g chain maxn ins host ms' (put acc new))
  end.

Definition direct_embeddings (g : grammar) (chain : graph_chain) (maxn : nat) (ins host : tree)
  : res (list tree) :=
  direct_loop g chain maxn ins host (embeddable chain ins host) [].

(* ------------------------------------------------------------------ *)
(* make_leaves_open, path_to_tree                                      *)
(* ------------------------------------------------------------------ *)
Fixpoint mlo (t : tree) : tree :=
  match t with
  | Node l i o ks =>
      if o then t
      else match ks with
           | [] => if is_nt l then Node l i true [] else t
           | _ => Node l i false (map mlo ks)
           end
  end.

Fixpoint positions_from (B : str) (a : alt) (i : nat) : list nat :=
  match a with
  | [] => []
  | x :: a' => if str_eqb x B then i :: positions_from B a' (S i) else positions_from B a' (S i)
  end.

(* DerivationTree(sym, []) for every position but i, where the sub-candidate sits *)
Fixpoint ptt_kids (a : alt) (i : nat) (sub : tree) : list tree :=
  match a with
  | [] => []
  | s :: a' => match i with
               | O => sub :: map (fun s' => Node s' 0 false []) a'
               | S i' => Node s 0 false [] :: ptt_kids a' i' sub
               end
  end.

Fixpoint ptt_raw (g : grammar) (A : str) (rest : list str) : list tree :=
  match rest with
  | [] => [Node A 0 true []]
  | B :: rest' =>
      flat_map (fun a =>
        flat_map (fun i =>
          map (fun sub => Node A 0 false (ptt_kids a i sub)) (ptt_raw g B rest'))
          (positions_from B a 0))
        (alts_with g A B)
  end.

Definition path_to_tree (g : grammar) (ch : list str) : res (list tree) :=
  match ch with
  | A :: B :: rest => Ok (map mlo (ptt_raw g A (B :: rest)))
  | _ => Raise AssertErr
  end.

(* ------------------------------------------------------------------ *)
(* connect_trees, find_higher_up_insertion_points                      *)
(* ------------------------------------------------------------------ *)
Fixpoint cwamop (fuel : nat) (t : tree) : list tree :=
  t :: match fuel with
       | O => []
       | S f => match kids t with
                | [c] => cwamop f c
                | _ => []
                end
       end.
Definition cwamop_t (t : tree) : list tree := cwamop (size t) t.

Definition open_leaves_lbl (t : tree) (B : str) : list path :=
  map fst (filter (fun pt => opn (snd pt) && str_eqb (lbl (snd pt)) B) (nodes t)).

Definition connect_one (g : grammar) (add parent : tree) (ip : path) (ct : tree) (lp : path)
  : res tree :=
  match subtree parent ip with
  | None => Raise IndexErr
  | Some orig =>
      bind (replace_path (Node (lbl ct) (tid orig) (opn ct) (kids ct)) lp add) (fun inst =>
      bind (replace_path parent ip inst) (fun new =>
      bind (assert (wf_treeb g new)) (fun _ => Ok new)))
  end.

Definition connect_trees (g : grammar) (pb : graph_paths) (add parent : tree)
           (ipts : list (path * tree)) : res (list tree) :=
  concatM (fun ipt =>
    if is_nt (lbl (snd ipt)) then
      concatM (fun ch =>
        bind (path_to_tree g ch) (fun cts =>
        concatM (fun ct =>
          mapM (fun lp => connect_one g add parent (fst ipt) ct lp)
               (open_leaves_lbl ct (lbl add))) cts))
        (pb (lbl (snd ipt)) (lbl add))
    else Ok []) ipts.

(* proper prefixes of p, longest first: p[:-1], p[:-2], ..., () *)
Fixpoint proper_prefixes (fuel : nat) (p : path) : list path :=
  match fuel, p with
  | S f, _ :: _ => removelast p :: proper_prefixes f (removelast p)
  | _, _ => []
  end.

Definition has_path (acc : list (path * tree)) (p : path) : bool :=
  existsb (fun e => path_eqb (fst e) p) acc.

(* state: (returned?, dict) *)
Definition hu_node (reach : str -> str -> bool) (t : tree) (s : tree)
           (st : bool * list (path * tree)) (q : path) : bool * list (path * tree) :=
  if fst st then st
  else match subtree t q with
       | None => st
       | Some n =>
           if Nat.ltb 1 (length (kids n)) then (true, snd st)
           else if str_eqb (lbl n) (lbl s) then st
           else if reach (lbl n) (lbl s)
                then (false, if has_path (snd st) q then snd st else snd st ++ [(q, n)])
                else st
       end.

Definition higher_up (reach : str -> str -> bool) (t : tree) (ip : path) (spc : list tree)
  : list (path * tree) :=
  snd (fold_left (fun st s => fold_left (hu_node reach t s) (proper_prefixes (length ip) ip) st)
                 spc (false, [])).

(* ------------------------------------------------------------------ *)
(* insert_trees                                                        *)
(* ------------------------------------------------------------------ *)
Definition is_leaf (t : tree) : bool := match kids t with [] => true | _ => false end.

Definition pips (reach : str -> str -> bool) (into t : tree) : list path :=
  map fst (filter (fun pt =>
     is_leaf (snd pt) &&
     existsb (fun s => str_eqb (lbl (snd pt)) (lbl s)
                       || (is_nt (lbl (snd pt)) && is_nt (lbl s) && reach (lbl (snd pt)) (lbl s)))
             (cwamop_t t)) (nodes into)).

(* itertools.product of the value lists *)
Fixpoint product {A} (ls : list (list A)) : list (list A) :=
  match ls with
  | [] => [[]]
  | l :: ls' => flat_map (fun x => map (cons x) (product ls')) l
  end.

Definition nested (p q : path) : bool := path_eqb p q || prefixb p q || prefixb q p.

Fixpoint pairwise_ok_from (i : nat) (ps all : list path) : bool :=
  match ps with
  | [] => true
  | p :: ps' =>
      (fix inner (j : nat) (qs : list path) : bool :=
         match qs with
         | [] => true
         | q :: qs' => (Nat.eqb i j || negb (nested p q)) && inner (S j) qs'
         end) 0 all && pairwise_ok_from (S i) ps' all
  end.
Definition combination_ok (ps : list path) : bool :=
  match ps with [] => false | _ => pairwise_ok_from 0 ps ps end.

(* one (tree, insertion_path) item applied to one result tree *)
Definition insert_item (g : grammar) (pb : graph_paths) (reach : str -> str -> bool)
           (t : tree) (ip : path) (rt : tree) : res (list tree) :=
  match subtree rt ip with
  | None => Raise IndexErr
  | Some ipt =>
      if str_eqb (lbl ipt) (lbl t) then
        bind (replace_path rt ip t) (fun new =>
        bind (assert (wf_treeb g new)) (fun _ =>
        bind (assert (ids_kept t new)) (fun _ => Ok [new])))
      else
        let spc := filter (fun s => is_nt (lbl s)) (cwamop_t t) in
        let ipts := (ip, ipt) :: higher_up reach rt ip spc in
        match spc with
        | [] => Raise StopIter
        | s :: _ => connect_trees g pb s rt ipts
        end
  end.

Fixpoint insert_items (g : grammar) (pb : graph_paths) (reach : str -> str -> bool)
         (items : list (tree * path)) (rts : list tree) : res (list tree) :=
  match items with
  | [] => Ok rts
  | (t, ip) :: items' =>
      bind (concatM (insert_item g pb reach t ip) (rev rts))
           (insert_items g pb reach items')
  end.

Fixpoint combos_loop (g : grammar) (pb : graph_paths) (reach : str -> str -> bool) (maxn : nat)
         (into : tree) (cs : list (list (tree * path))) (acc : list tree) : res (list tree) :=
  match cs with
  | [] => Ok acc
  | c :: cs' =>
      if Nat.leb maxn (length acc) then Ok acc
      else bind (insert_items g pb reach c [into])
                (fun rs => combos_loop g pb reach maxn into cs' (acc ++ rs))
  end.

Definition insert_trees (g : grammar) (pb : graph_paths) (reach : str -> str -> bool) (maxn : nat)
           (ts : list tree) (into : tree) : res (list tree) :=
  let pp := filter (fun e => match snd e with [] => false | _ => true end)
                   (map (fun t => (t, pips reach into t)) ts) in
  let combos := map (fun ps => combine (map fst pp) ps) (product (map snd pp)) in
  let ok := filter (fun c => combination_ok (map snd c)) combos in
  combos_loop g pb reach maxn into ok [].

(* ------------------------------------------------------------------ *)
(* compute_self_embeddings, compute_context_additions                  *)
(* ------------------------------------------------------------------ *)
Fixpoint self_loop (g : grammar) (maxn : nat) (host : tree) (cp : path)
         (insts : list tree) (acc : list tree) : res (list tree) :=
  match insts with
  | [] => Ok acc
  | it :: insts' =>
      bind (assert (wf_treeb g it)) (fun _ =>
      if Nat.leb maxn (length acc) then Ok acc
      else match subtree host cp with
           | None => Raise IndexErr
           | Some orig =>
               bind (assert (str_eqb (lbl it) (lbl orig))) (fun _ =>
               bind (replace_path host cp it) (fun new =>
               bind (assert (wf_treeb g new)) (fun _ =>
               bind (assert (ids_kept host new)) (fun _ =>
               self_loop g maxn host cp insts' (put acc new)))))
           end)
  end.

Definition self_embeddings (g : grammar) (pb : graph_paths) (reach : str -> str -> bool) (maxn : nat)
           (cp : path) (ins host : tree) : res (list tree) :=
  match subtree host cp with
  | None => Raise IndexErr
  | Some cur =>
      if negb (is_nt (lbl cur)) || negb (reach (lbl cur) (lbl cur)) then Ok []
      else
        bind (concatM (path_to_tree g) (pb (lbl cur) (lbl cur))) (fun sets =>
        bind (concatM (fun set => insert_trees g pb reach maxn [cur; ins] set) sets) (fun insts =>
        self_loop g maxn host cp insts []))
  end.

Definition ctx_collect (host into : tree) (cp : path) (cur : tree) : list (path * tree) :=
  fold_left (fun acc pt =>
     if (match fst pt with [] => false | _ => true end)
        && negb (existsb (fun e => nested (fst e) (fst pt)) acc)
        && negb (has_id into (tid (snd pt)))
     then acc ++ [pt] else acc) (nodes host) [(cp, cur)].

Definition contains (t s : tree) : bool := has_id t (tid s).

Definition context_additions (g : grammar) (pb : graph_paths) (reach : str -> str -> bool)
           (maxn : nat) (cp : path) (ins host : tree) : res (list tree) :=
  match subtree host cp with
  | None => Raise IndexErr
  | Some cur =>
      if negb (str_eqb (lbl cur) (lbl ins)) then Ok []
      else
        bind (replace_path host cp ins) (fun into =>
        let subs := map snd (ctx_collect host into cp cur) in
        bind (insert_trees g pb reach maxn subs into) (fun rs =>
        Ok (filter (fun t => forallb (contains t) subs && contains t into && ids_kept host t) rs)))
  end.

(* ------------------------------------------------------------------ *)
(* insert_tree                                                         *)
(* ------------------------------------------------------------------ *)
Definition DIRECT := 1. Definition SELF := 2. Definition CONTEXT := 4.
Definition has_method (m k : nat) : bool := Nat.odd (Nat.div m k).

(* add_to_result for a list of new trees *)
Fixpoint add_all (g : grammar) (host ins : tree) (new : list tree) (acc : list tree)
  : res (list tree) :=
  match new with
  | [] => Ok acc
  | t :: new' =>
      bind (assert (wf_treeb g t)) (fun _ =>
      bind (assert (ids_kept host t)) (fun _ =>
      add_all g host ins new'
        (if contains t ins && negb (existsb (struct_eqb t) acc) then acc ++ [t] else acc)))
  end.

Fixpoint insert_loop (g : grammar) (chain : graph_chain) (pb : graph_paths) (maxn : nat) (m : nat)
         (ins host : tree) (cps : list path) (acc : list tree) : res (list tree) :=
  match cps with
  | [] => Ok acc
  | cp :: cps' =>
      let reach := reachable chain in
      if Nat.leb maxn (length acc) then Ok acc
      else
        let n1 := maxn - length acc in
        bind (if has_method m DIRECT
              then bind (direct_embeddings g chain n1 ins host) (fun r => add_all g host ins r acc)
              else Ok acc) (fun acc1 =>
        bind (if has_method m SELF
              then bind (self_embeddings g pb reach n1 cp ins host) (fun r => add_all g host ins r acc1)
              else Ok acc1) (fun acc2 =>
        bind (if has_method m CONTEXT
              then bind (context_additions g pb reach n1 cp ins host) (fun r => add_all g host ins r acc2)
              else Ok acc2) (fun acc3 =>
        insert_loop g chain pb maxn m ins host cps' acc3)))
  end.

Definition insert_tree (g : grammar) (chain : graph_chain) (pb : graph_paths) (maxn : nat) (m : nat)
           (ins host : tree) : res (list tree) :=
  insert_loop g chain pb maxn m ins host (positions host) [].

(* ------------------------------------------------------------------ *)
(* acceptance procedure for the property (specification side: see InsertFacts.v) *)
(* ------------------------------------------------------------------ *)
Definition has_node (r : tree) (n : tree) : bool :=
  existsb (fun m => N.eqb (tid (snd m)) (tid n) && str_eqb (lbl (snd m)) (lbl n)) (nodes r).

Definition keeps_nodes (host r : tree) : bool := forallb (fun n => has_node r (snd n)) (nodes host).
Definition has_subtree (r ins : tree) : bool := existsb (fun m => tree_eqb (snd m) ins) (nodes r).

Definition insertedb (g : grammar) (host ins r : tree) : bool :=
  wf_treeb g r && str_eqb (lbl r) (lbl host) && keeps_nodes host r && has_subtree r ins.

(* everything but the last conjunct; the root of ins is still found by id and label
   (what add_to_result checks).  Divergence kind of the known finding K_ctx. *)
Definition inserted_lossyb (g : grammar) (host ins r : tree) : bool :=
  wf_treeb g r && str_eqb (lbl r) (lbl host) && keeps_nodes host r && has_node r ins.

(* class of the open finding: the method mask contains CONTEXT_ADDITION *)
Definition K_ctx (m : nat) : bool := has_method m CONTEXT.

(* lookup tables used by generated correspondence cases *)
Fixpoint lookup2 {A} (tbl : list (str * str * A)) (d : A) (a b : str) : A :=
  match tbl with
  | [] => d
  | (x, y, v) :: tbl' => if str_eqb x a && str_eqb y b then v else lookup2 tbl' d a b
  end.
Definition list_eqb {A} (eqb : A -> A -> bool) :=
  fix go (xs ys : list A) : bool :=
    match xs, ys with
    | [], [] => true
    | x :: xs', y :: ys' => eqb x y && go xs' ys'
    | _, _ => false
    end.
