(* C13 — proof extension (3): assertion-freedom of insert_tree for methods = DIRECT_EMBEDDING.

   `good strict r`:  r is `Ok _`, or (only when strict = false) `Raise IndexErr`.
   IndexErr is the outcome of `[...][0]` in wrap_in_tree_starting_in when the chain oracle
   names two consecutive symbols that are not connected in the grammar; it is excluded by the
   additional oracle hypothesis `chain_conn` (strict = true).

   Oracle hypotheses used here (Section-style premises of the exported theorems):
     chain_ok    (InsertFacts)  chains have >= 2 symbols, end in the requested symbol, nonterminals
     chain_start               a chain for (A, B) starts with A
     chain_conn  (only for the total version) consecutive chain symbols are connected in g. *)
From ISLA Require Import Grammar GrammarFacts TreeFacts Insert InsertFacts.
From Coq Require Import List NArith Bool Arith Lia.
Import ListNotations.

Definition good (strict : bool) {A} (r : res A) : Prop :=
  match r with Ok _ => True | Raise e => strict = false /\ e = IndexErr end.

Lemma good_bind strict {A B} (r : res A) (f : A -> res B) :
  good strict r -> (forall x, r = Ok x -> good strict (f x)) -> good strict (bind r f).
Proof. destruct r as [x|e]; simpl; intros H Hf; [apply Hf; reflexivity | exact H]. Qed.

Lemma good_true_ok {A} (r : res A) : good true r -> exists x, r = Ok x.
Proof. destruct r as [x|e]; simpl; [eauto | intros [H _]; discriminate]. Qed.

Lemma good_false_cases {A} (r : res A) : good false r -> (exists x, r = Ok x) \/ r = Raise IndexErr.
Proof. destruct r as [x|e]; simpl; [eauto | intros [_ ->]; auto]. Qed.

(* ---------- oracle hypotheses ---------- *)
Definition chain_start (chain : graph_chain) : Prop :=
  forall A B ch, chain A B = Some ch -> exists rest, ch = A :: rest.

Fixpoint linked (g : grammar) (ch : list str) : Prop :=
  match ch with
  | X :: ((Y :: _) as r) => alts_with g X Y <> [] /\ linked g r
  | _ => True
  end.

Definition chain_conn (g : grammar) (chain : graph_chain) : Prop :=
  forall A B ch, chain A B = Some ch -> linked g ch.

(* ---------- shortest_first is total on non-empty lists ---------- *)
Lemma shortest_first_some (l : list alt) : l <> [] -> exists a, shortest_first l = Some a.
Proof.
  intro Hne. unfold shortest_first.
  destruct (find (fun a => negb (existsb (fun a' => Nat.ltb (length a') (length a)) l)) l) as [a|] eqn:E;
    [eauto|]. exfalso.
  assert (Hall : forall n x, In x l -> length x <= n -> False).
  { induction n as [|n IH]; intros x Hx Hlen.
    - pose proof (find_none _ _ E x Hx) as Hf. apply negb_false_iff in Hf.
      apply existsb_exists in Hf as (y & _ & Hy). apply Nat.ltb_lt in Hy. lia.
    - pose proof (find_none _ _ E x Hx) as Hf. apply negb_false_iff in Hf.
      apply existsb_exists in Hf as (y & Hyin & Hy). apply Nat.ltb_lt in Hy.
      apply (IH y Hyin). lia. }
  destruct l as [|x l]; [contradiction|]. apply (Hall (length x) x); [left; reflexivity | lia].
Qed.

(* ---------- wrap ---------- *)
Lemma wrap_good strict g ins : forall rest A,
  (strict = true -> linked g (A :: rest)) -> good strict (wrap g A rest ins).
Proof.
  induction rest as [|B rest IH]; intros A Hl; simpl; [exact I|].
  destruct (shortest_first (alts_with g A B)) as [a|] eqn:Hsf.
  - apply good_bind.
    + destruct rest as [|C rest]; [exact I|]. apply IH. intro Hs. apply (Hl Hs).
    + intros x _. exact I.
  - destruct strict; [|split; reflexivity]. exfalso.
    destruct (Hl eq_refl) as [Hne _]. destruct (shortest_first_some _ Hne) as (a & Ha). congruence.
Qed.

(* ---------- has_id / ids_kept ---------- *)
Lemma has_id_spec t i : has_id t i = true <-> exists p n, subtree t p = Some n /\ tid n = i.
Proof.
  unfold has_id. rewrite existsb_exists. split.
  - intros ([p n] & Hin & H). apply nodes_spec in Hin. apply N.eqb_eq in H. exists p, n. auto.
  - intros (p & n & Hs & H). exists (p, n). split; [apply nodes_spec; assumption|].
    simpl. apply N.eqb_eq. assumption.
Qed.

Lemma ids_kept_spec old new :
  ids_kept old new = true <->
  forall p n, subtree old p = Some n -> exists q m, subtree new q = Some m /\ tid m = tid n.
Proof.
  unfold ids_kept. rewrite forallb_forall. split.
  - intros H p n Hs. apply has_id_spec. apply (H (p, n)). apply nodes_spec. assumption.
  - intros H [p n] Hin. apply has_id_spec. apply (H p). apply nodes_spec. assumption.
Qed.

Lemma inserted_ids_kept g host ins t : inserted g host ins t -> ids_kept host t = true.
Proof.
  intros (_ & _ & Hk & _). apply ids_kept_spec. intros p n Hs.
  destruct (Hk p n Hs) as (q & m & Hm & E & _). exists q, m. auto.
Qed.

(* ---------- compute_direct_embeddings: one step ---------- *)
Lemma direct_step_good strict g chain ins host p leaf :
  closed_g g -> chain_ok chain -> chain_start chain ->
  (strict = true -> chain_conn g chain) ->
  wf_tree g host -> wf_tree g ins ->
  subtree host p = Some leaf -> opn leaf = true ->
  reachable chain (lbl leaf) (lbl ins) = true ->
  good strict (direct_step g chain ins host (p, leaf)).
Proof.
  intros Hc Hch Hst Hconn Hhost Hins Hp Ho Hreach. unfold direct_step, reachable in *. simpl.
  destruct (chain (lbl leaf) (lbl ins)) as [ch|] eqn:Ech; [|discriminate].
  destruct (Hst _ _ _ Ech) as (rest' & ->).
  pose proof (Hch _ _ _ Ech) as (X & rest & EX & Hne & Hlast & Hnt). inversion EX; subst X rest'; clear EX.
  pose proof (wf_subtree g p host leaf Hhost Hp) as Hleaf.
  destruct (wf_open_kids g leaf Hleaf Ho) as [Hk HntL].
  apply good_bind.
  - simpl. apply wrap_good. intro Hs. apply (Hconn Hs _ _ _ Ech).
  - intros t Hw. simpl in Hw.
    destruct (wrap_ok g Hc ins Hins rest (lbl leaf) t HntL Hne Hnt (eq_sym Hlast) Hw)
      as (Wt & Lt & Ot & i & q & Sq).
    rewrite Lt, str_eqb_refl. simpl.
    set (r := Node (lbl leaf) (tid leaf) (opn t) (kids t)).
    destruct (replace_at_some p host r leaf Hp) as (new & Hnew).
    unfold replace_path. rewrite Hnew. simpl.
    assert (Hkept : ids_kept host new = true).
    { apply ids_kept_spec. intros p' n Hn.
      destruct (replace_at_keeps p host r new leaf Hnew Hp Hk eq_refl eq_refl p' n Hn) as (m & Hm & E1 & _).
      exists p', m. auto. }
    rewrite Hkept. exact I.
Qed.

Lemma direct_loop_good strict g chain maxn ins host : forall ms acc,
  (forall pt, In pt ms -> good strict (direct_step g chain ins host pt)) ->
  good strict (direct_loop g chain maxn ins host ms acc).
Proof.
  induction ms as [|pt ms IH]; intros acc H; simpl; [exact I|].
  destruct (Nat.leb maxn (length acc)); [exact I|].
  apply good_bind; [apply H; left; reflexivity|].
  intros new _. apply IH. intros pt' Hpt'. apply H. right. assumption.
Qed.

Lemma direct_embeddings_good strict g chain maxn ins host :
  closed_g g -> chain_ok chain -> chain_start chain ->
  (strict = true -> chain_conn g chain) ->
  wf_tree g host -> wf_tree g ins ->
  good strict (direct_embeddings g chain maxn ins host).
Proof.
  intros Hc Hch Hst Hconn Hhost Hins. unfold direct_embeddings. apply direct_loop_good.
  intros [p leaf] Hpt. unfold embeddable in Hpt. apply filter_In in Hpt as [Hn Hf].
  apply nodes_spec in Hn. apply andb_true_iff in Hf as [Ho Hr]. simpl in Ho, Hr.
  eapply direct_step_good; eassumption.
Qed.

(* ---------- add_to_result: its two assertions hold for `inserted` trees ---------- *)
Lemma add_all_good strict g host ins : forall new acc,
  (forall t, In t new -> inserted g host ins t) ->
  good strict (add_all g host ins new acc).
Proof.
  induction new as [|t new IH]; intros acc H; simpl; [exact I|].
  pose proof (H t (or_introl eq_refl)) as Ht.
  assert (Hwf : wf_treeb g t = true) by (apply wf_treeb_spec; apply Ht).
  rewrite Hwf, (inserted_ids_kept _ _ _ _ Ht). simpl.
  apply IH. intros t' Ht'. apply H. right. assumption.
Qed.

(* ---------- the next_path loop of insert_tree for methods = DIRECT ---------- *)
Lemma insert_loop_direct_good strict g chain pb maxn ins host :
  closed_g g -> chain_ok chain -> chain_start chain ->
  (strict = true -> chain_conn g chain) ->
  wf_tree g host -> wf_tree g ins ->
  forall cps acc, good strict (insert_loop g chain pb maxn 1 ins host cps acc).
Proof.
  intros Hc Hch Hst Hconn Hhost Hins. induction cps as [|cp cps IH]; intro acc; [exact I|].
  rewrite insert_loop_direct_step. destruct (Nat.leb maxn (length acc)); [exact I|].
  apply good_bind; [|intros acc1 _; apply IH].
  apply good_bind; [apply direct_embeddings_good; assumption|].
  intros r Hr. apply add_all_good. intros t Ht. eapply direct_ok; eassumption.
Qed.

(* No assertion of insert_tree / compute_direct_embeddings / add_to_result can fire for
   methods = DIRECT_EMBEDDING: the outcome is a list, or IndexError when the oracle's chain is
   not connected in the grammar (wrap_in_tree_starting_in: `[...][0]`). *)
Theorem insert_tree_direct_no_assert g chain pb maxn ins host :
  closed_g g -> chain_ok chain -> chain_start chain -> wf_tree g host -> wf_tree g ins ->
  (exists rs, insert_tree g chain pb maxn DIRECT ins host = Ok rs) \/
  insert_tree g chain pb maxn DIRECT ins host = Raise IndexErr.
Proof.
  intros Hc Hch Hst Hhost Hins. apply good_false_cases. unfold insert_tree.
  apply insert_loop_direct_good; try assumption. discriminate.
Qed.

(* With a connected chain oracle the call is total, and every result satisfies the property. *)
Theorem insert_tree_direct_total g chain pb maxn ins host :
  closed_g g -> chain_ok chain -> chain_start chain -> chain_conn g chain ->
  wf_tree g host -> wf_tree g ins ->
  exists rs, insert_tree g chain pb maxn DIRECT ins host = Ok rs /\
             forall t, In t rs -> inserted g host ins t.
Proof.
  intros Hc Hch Hst Hconn Hhost Hins.
  destruct (good_true_ok (insert_tree g chain pb maxn DIRECT ins host)) as (rs & Hrs).
  { unfold insert_tree. apply insert_loop_direct_good; auto. }
  exists rs. split; [assumption|]. intros t Ht. eapply insert_tree_direct_ok; eassumption.
Qed.

(* ---------- executable checks of the new oracle hypotheses (non-vacuity) ---------- *)
Definition chain_start_tblb (tbl : list (str * str * list str)) : bool :=
  forallb (fun e => match snd e with X :: _ => str_eqb X (fst (fst e)) | [] => false end) tbl.

Fixpoint linkedb (g : grammar) (ch : list str) : bool :=
  match ch with
  | X :: ((Y :: _) as r) => negb (match alts_with g X Y with [] => true | _ => false end) && linkedb g r
  | _ => true
  end.

Lemma linkedb_spec g ch : linkedb g ch = true -> linked g ch.
Proof.
  induction ch as [|X r IH]; [exact (fun _ => I)|]. destruct r as [|Y r]; [exact (fun _ => I)|].
  cbn [linkedb linked]. intro H. apply andb_true_iff in H as [H1 H2]. split; [|apply IH; assumption].
  destruct (alts_with g X Y); [discriminate H1 | discriminate].
Qed.

Lemma chain_start_tbl_ok tbl : chain_start_tblb tbl = true -> chain_start (chain_of_tbl tbl).
Proof.
  unfold chain_start, chain_of_tbl, chain_start_tblb.
  induction tbl as [|[[x y] v] tbl IH]; simpl; intros H A B ch E; [discriminate|].
  apply andb_true_iff in H as [H1 H2]. simpl in H1.
  destruct (str_eqb x A && str_eqb y B) eqn:Exy.
  - inversion E; subst. apply andb_true_iff in Exy as [Ex _]. apply str_eqb_eq in Ex. subst.
    destruct ch as [|X r]; [discriminate|]. apply str_eqb_eq in H1. subst. eauto.
  - eapply IH; eassumption.
Qed.

Lemma chain_conn_tbl_ok g tbl :
  forallb (fun e => linkedb g (snd e)) tbl = true -> chain_conn g (chain_of_tbl tbl).
Proof.
  unfold chain_conn, chain_of_tbl.
  induction tbl as [|[[x y] v] tbl IH]; simpl; intros H A B ch E; [discriminate|].
  apply andb_true_iff in H as [H1 H2]. simpl in H1.
  destruct (str_eqb x A && str_eqb y B) eqn:Exy.
  - inversion E; subst. apply linkedb_spec. assumption.
  - eapply IH; eassumption.
Qed.

Example ex_direct_hyps : chain_start ex_chain /\ chain_conn ex_g ex_chain.
Proof.
  split.
  - apply chain_start_tbl_ok. vm_compute. reflexivity.
  - apply chain_conn_tbl_ok. vm_compute. reflexivity.
Qed.

(* Without chain_start the first assertion of compute_direct_embeddings can fire: an oracle that
   satisfies chain_ok but answers with a chain that does not start in the leaf's symbol. *)
Definition bad_chain : graph_chain := fun _ _ => Some [s1; s1].
Example chain_start_needed :
  insert_tree ex_g bad_chain ex_pb 50 DIRECT (Node s1 5 true []) (Node s0 2 true []) = Raise AssertErr.
Proof. vm_compute. reflexivity. Qed.
