(* C10 — `fill_enough_fuel`: with fuel above an explicit, computable bound the chart construction of
   the model never answers out-of-fuel.  Every column is a duplicate-free list of items
   (A -> alpha . beta, s) with A -> alpha beta a rule of the parser's grammar, dot <= |alpha beta| and
   s <= column index, so it has at most  item_shapes cg * (n + 1)  entries. *)
From ISLA Require Import Grammar GrammarFacts Earley EarleyFacts EarleyPrune EarleyTop EarleyTrees
  EarleyComplete EarleyForest.
From Coq Require Import Lia PeanoNat.

(* ---------------- columns stay duplicate-free ---------------- *)
Lemma add_NoDup col it : NoDup col -> NoDup (add col it).
Proof.
  intro H. unfold add. destruct (existsb (item_eqb it) col) eqn:E; [exact H|].
  apply NoDup_snoc; [exact H|]. intro Hin.
  assert (Ht : existsb (item_eqb it) col = true).
  { apply existsb_exists. exists it. split; [exact Hin | apply item_eqb_eq; reflexivity]. }
  congruence.
Qed.

Lemma add_all_NoDup its : forall col, NoDup col -> NoDup (add_all col its).
Proof.
  unfold add_all. induction its as [|x its IH]; intros col H; simpl; [exact H|].
  apply IH. apply add_NoDup. exact H.
Qed.

Lemma process_NoDup cg eps prev i nl st cur nxt cur' nxt' :
  NoDup cur -> NoDup nxt -> process cg eps prev i nl st cur nxt = (cur', nxt') ->
  NoDup cur' /\ NoDup nxt'.
Proof.
  intros Hc Hn H. unfold process in H. destruct (at_dot st) as [sym|].
  - destruct (defined cg sym).
    + destruct (mem sym eps); inversion H; subst cur' nxt'; split; try assumption.
      * apply add_NoDup, add_all_NoDup. exact Hc.
      * apply add_all_NoDup. exact Hc.
    + destruct nl as [c|]; [|inversion H; subst cur' nxt'; split; assumption].
      destruct (str_eqb sym [c]); inversion H; subst cur' nxt'; split; try assumption.
      apply add_NoDup. exact Hn.
  - inversion H; subst cur' nxt'. split; [apply add_all_NoDup; exact Hc | exact Hn].
Qed.

(* ---------------- generic: an invariant with a finite universe bounds the fuel ---------------- *)
Section FuelGeneric.
  Variable cg : grammar.
  Variable w : str.
  Variable eps : list str.
  Variable P : nat -> item -> Prop.
  Hypothesis Ppred : forall i st sym, P i st -> at_dot st = Some sym -> defined cg sym = true ->
    (forall a, In a (alts cg sym) -> P i (Item sym a 0 i)) /\ (mem sym eps = true -> P i (advance st)).
  Hypothesis Pscan : forall i st c, P i st -> at_dot st = Some [c] -> defined cg [c] = false ->
    nth_error w i = Some c -> P (S i) (advance st).
  Hypothesis Pcomp : forall i st p, P i st -> at_dot st = None -> P (iorg st) p ->
    wants (iname st) p = true -> P i (advance p).
  Variable U : nat -> list item.
  Hypothesis PU : forall i it, P i it -> In it (U i).

  Lemma col_bound i col : NoDup col -> Forall (P i) col -> length col <= length (U i).
  Proof.
    intros Hnd HP. apply NoDup_incl_length; [exact Hnd|]. intros x Hx.
    rewrite Forall_forall in HP. apply PU, HP, Hx.
  Qed.

  Lemma fill_col_fuel prev i nl : forall fuel k cur nxt,
    (forall j col, nth_error prev j = Some col -> Forall (P j) col) -> length prev = i ->
    Forall (P i) cur -> Forall (P (S i)) nxt ->
    (forall c, nl = Some c -> nth_error w i = Some c) ->
    NoDup cur -> NoDup nxt -> k <= length cur -> length (U i) < fuel + k ->
    exists cur' nxt', fill_col fuel cg eps prev i nl k cur nxt = Some (cur', nxt') /\ NoDup nxt'.
  Proof.
    induction fuel as [|f IH]; intros k cur nxt Hprev Hlen Hcur Hnxt Hnl Hndc Hndn Hk Hf.
    - exfalso. pose proof (col_bound i cur Hndc Hcur). lia.
    - simpl. destruct (nth_error cur k) as [st|] eqn:Ek; [|exists cur, nxt; split; [reflexivity | exact Hndn]].
      destruct (process cg eps prev i nl st cur nxt) as [c1 n1] eqn:Hp.
      assert (Hst : P i st).
      { rewrite Forall_forall in Hcur. apply Hcur. eapply nth_error_In; exact Ek. }
      destruct (process_inv cg w eps P Ppred Pscan Pcomp prev i nl st cur nxt c1 n1
                  Hprev Hlen Hcur Hnxt Hst Hnl Hp) as [H1 H2].
      destruct (process_NoDup _ _ _ _ _ _ _ _ _ _ Hndc Hndn Hp) as [N1 N2].
      destruct (process_closes cg eps prev i nl st cur nxt c1 n1 Hp) as (_ & (ex & Eex) & _).
      assert (Hlt : k < length cur) by (apply nth_error_Some; congruence).
      apply IH; try assumption.
      + rewrite Eex, app_length. lia.
      + lia.
  Qed.

  Lemma fill_chart_fuel fuel : (forall j, j <= length w -> length (U j) < fuel) ->
    forall rest prev i cur,
    (forall j col, nth_error prev j = Some col -> Forall (P j) col) -> length prev = i ->
    Forall (P i) cur -> NoDup cur -> i <= length w -> skipn i w = rest ->
    fill_chart fuel cg eps prev i cur rest <> None.
  Proof.
    intro HU. induction rest as [|c rest IH]; intros prev i cur Hprev Hlen Hcur Hnd Hi Hsk; simpl.
    - destruct (fill_col_fuel prev i None fuel 0 cur [] Hprev Hlen Hcur (Forall_nil _)) as (c1 & n1 & E & _);
        [intros c0 Hc0; discriminate | exact Hnd | constructor | lia | specialize (HU i Hi); lia |].
      rewrite E. discriminate.
    - destruct (skipn_cons_nth w i c rest Hsk) as [Hn Hsk'].
      assert (Hnl : forall c0, Some c = Some c0 -> nth_error w i = Some c0)
        by (intros c0 Hc0; inversion Hc0; subst; exact Hn).
      destruct (fill_col_fuel prev i (Some c) fuel 0 cur [] Hprev Hlen Hcur (Forall_nil _) Hnl)
        as (c1 & n1 & E & Nn); [exact Hnd | constructor | lia | specialize (HU i Hi); lia |].
      rewrite E.
      destruct (fill_col_inv cg w eps P Ppred Pscan Pcomp prev i (Some c) fuel 0 cur [] c1 n1
                  Hprev Hlen Hcur (Forall_nil _) Hnl E) as [H1 H2].
      assert (Hlt : i < length w) by (apply nth_error_Some; congruence).
      apply IH; [ | | exact H2 | exact Nn | lia | exact Hsk'].
      + apply prev_snoc_inv; [assumption | rewrite Hlen; assumption].
      + rewrite app_length. simpl. unfold column in *. lia.
  Qed.
End FuelGeneric.

(* ---------------- the concrete universe of items ---------------- *)
Definition item_shapes (cg : grammar) : nat :=
  fold_right (fun r acc => S (length (snd r)) + acc) 0 (rules cg).
(* the bound the theorems need; the harness passes (items+4)*(n+2)+20 with items >= item_shapes *)
Definition fuel_bound (cg : grammar) (n : nat) : nat := item_shapes cg * S n + 1.

Definition items_of (j : nat) (r : str * alt) : list item :=
  flat_map (fun d => map (fun o => Item (fst r) (snd r) d o) (seq 0 (S j))) (seq 0 (S (length (snd r)))).
Definition universe (cg : grammar) (j : nat) : list item := flat_map (items_of j) (rules cg).

Lemma length_flat_map_const {A B} (f : A -> list B) n l :
  (forall x, length (f x) = n) -> length (flat_map f l) = length l * n.
Proof.
  intro H. induction l as [|x l IH]; simpl; [reflexivity|]. rewrite app_length, H, IH. reflexivity.
Qed.

Lemma universe_length cg j : length (universe cg j) = item_shapes cg * S j.
Proof.
  unfold universe, item_shapes. induction (rules cg) as [|r rs IH]; [reflexivity|].
  cbn [flat_map fold_right]. rewrite app_length, IH. unfold items_of at 1.
  rewrite (length_flat_map_const _ (S j)) by (intro d; rewrite map_length, seq_length; reflexivity).
  rewrite seq_length. rewrite Nat.mul_add_distr_r. reflexivity.
Qed.

Definition shapeP (cg : grammar) (j : nat) (it : item) : Prop :=
  In (iexpr it) (alts cg (iname it)) /\ idot it <= length (iexpr it) /\ iorg it <= j.

Lemma shapeP_universe cg j it : shapeP cg j it -> In it (universe cg j).
Proof.
  intros (He & Hd & Ho). unfold universe. apply in_flat_map. exists (iname it, iexpr it).
  split; [apply alts_rules; exact He|]. unfold items_of. cbn [fst snd]. apply in_flat_map.
  exists (idot it). split; [apply in_seq; lia|]. apply in_map_iff. exists (iorg it).
  split; [destruct it; reflexivity | apply in_seq; lia].
Qed.

Lemma at_dot_lt it s : at_dot it = Some s -> idot it < length (iexpr it).
Proof. unfold at_dot. intro H. apply nth_error_Some. congruence. Qed.

Section FuelConcrete.
  Variable cg : grammar.
  Variable w : str.

  Lemma shapeP_pred i st sym : shapeP cg i st -> at_dot st = Some sym -> defined cg sym = true ->
    (forall a, In a (alts cg sym) -> shapeP cg i (Item sym a 0 i)) /\
    (mem sym (nullable cg) = true -> shapeP cg i (advance st)).
  Proof.
    intros (He & Hd & Ho) Hdot _. split.
    - intros a Ha. unfold shapeP; simpl. repeat split; [exact Ha | lia | lia].
    - intros _. apply at_dot_lt in Hdot. unfold shapeP, advance; simpl. repeat split; [exact He | lia | exact Ho].
  Qed.

  Lemma shapeP_scan i st (c : chr) : shapeP cg i st -> at_dot st = Some [c] -> defined cg [c] = false ->
    nth_error w i = Some c -> shapeP cg (S i) (advance st).
  Proof.
    intros (He & Hd & Ho) Hdot _ _. apply at_dot_lt in Hdot.
    unfold shapeP, advance; simpl. repeat split; [exact He | lia | lia].
  Qed.

  Lemma shapeP_comp i st p : shapeP cg i st -> at_dot st = None -> shapeP cg (iorg st) p ->
    wants (iname st) p = true -> shapeP cg i (advance p).
  Proof.
    intros (_ & _ & Ho) _ (He & Hd & Hpo) Hw. unfold wants in Hw.
    destruct (at_dot p) as [s|] eqn:Hdot; [|discriminate]. apply at_dot_lt in Hdot.
    unfold shapeP, advance; simpl. repeat split; [exact He | lia | lia].
  Qed.

  Theorem fill_enough_fuel fuel sd :
    fuel_bound cg (length w) <= fuel -> Forall (shapeP cg 0) sd ->
    fill_chart fuel cg (nullable cg) [] 0 (add_all [] sd) w <> None.
  Proof.
    intros Hf Hsd.
    apply (fill_chart_fuel cg w (nullable cg) (shapeP cg) shapeP_pred shapeP_scan shapeP_comp
             (universe cg) (shapeP_universe cg) fuel).
    - intros j Hj. rewrite universe_length. unfold fuel_bound in Hf.
      assert (item_shapes cg * S j <= item_shapes cg * S (length w)) by (apply Nat.mul_le_mono_l; lia). lia.
    - intros j col Hj. destruct j; discriminate.
    - reflexivity.
    - apply add_all_Forall; [constructor | exact Hsd].
    - apply add_all_NoDup. constructor.
    - lia.
    - reflexivity.
  Qed.
End FuelConcrete.

Lemma seeds_shapeP fxA cg start sd :
  (fxA = true \/ alts cg start <> []) -> seeds fxA cg start = Ok sd -> Forall (shapeP cg 0) sd.
Proof.
  intros Hg H. unfold seeds in H. destruct (negb (defined cg start)); [discriminate|].
  assert (Hone : forall a, In a (alts cg start) -> shapeP cg 0 (Item start a 0 0)).
  { intros a Ha. unfold shapeP; simpl. repeat split; [exact Ha | lia | lia]. }
  destruct fxA.
  - inversion H; subst sd. apply Forall_forall. intros x Hx. apply in_map_iff in Hx as (a & <- & Ha).
    apply Hone. exact Ha.
  - destruct Hg as [Hg|Hg]; [discriminate|].
    destruct (alts cg start) as [|a [|b l]] eqn:Ea; [congruence | | discriminate].
    inversion H; subst sd. constructor; [apply Hone; left; reflexivity | constructor].
Qed.

(* ---------------- statements exported in Props/C10.v ---------------- *)
(* with enough fuel the chart construction answers; the only other outcomes are the exceptions of
   the seeding (KeyError for an undefined start symbol, TypeError of the pinned form) *)
Theorem chart_enough_fuel : forall g cstart fxA fuel start w,
  good_grammar g -> defined g WRAP = false -> defined g start = true ->
  (fxA = true \/ K_multistart g start = false) ->
  fuel_bound (cgram g cstart) (length w) <= fuel ->
  exists chart, chart_of fxA fuel (cgram g cstart) start w = Ok chart.
Proof.
  intros g cstart fxA fuel start w (Hk & _) Hw Hds HgA Hf. unfold chart_of.
  assert (Halts : alts (cgram g cstart) start = map (sct_alt g) (alts g start))
    by (apply cgc_alts; assumption).
  assert (Hg : fxA = true \/ alts (cgram g cstart) start <> []).
  { destruct HgA as [HgA|HgA]; [left; exact HgA|]. right. unfold K_multistart in HgA.
    apply negb_false_iff, Nat.eqb_eq in HgA. rewrite Halts.
    destruct (alts g start); [discriminate HgA | discriminate]. }
  destruct (seeds fxA (cgram g cstart) start) as [sd|e] eqn:Hs.
  - pose proof (fill_enough_fuel (cgram g cstart) w fuel sd Hf (seeds_shapeP _ _ _ _ Hg Hs)) as Hne.
    destruct (fill_chart fuel (cgram g cstart) (nullable (cgram g cstart)) [] 0 (add_all [] sd) w) as [ch|];
      [exists ch; reflexivity | congruence].
  - exfalso. unfold seeds in Hs. rewrite (cgc_defined_of g cstart start Hds) in Hs. simpl in Hs.
    destruct fxA; [discriminate|]. destruct HgA as [HgA|HgA]; [discriminate|].
    unfold K_multistart in HgA. apply negb_false_iff, Nat.eqb_eq in HgA.
    rewrite Halts in Hs. destruct (alts g start) as [|a [|b l]]; simpl in *; discriminate.
Qed.

(* the recogniser DECIDES membership (given enough fuel for the chart) *)
Theorem accepts_iff : forall g cstart fxA fxB fuel start w,
  good_grammar g -> NoDup (map fst g) -> defined g WRAP = false ->
  defined g start = true -> defined g cstart = true ->
  (fxA = true \/ K_multistart g start = false) ->
  (fxB = true \/ K_recstart g cstart start = false) ->
  fuel_bound (cgram g cstart) (length w) <= fuel ->
  exists b, earley_accepts fxA fxB fuel g cstart start w = Ok b /\ (b = true <-> L g start w).
Proof.
  intros g cstart fxA fxB fuel start w Hgood Hnd Hw Hds Hcs HgA HgB Hf.
  destruct (chart_enough_fuel g cstart fxA fuel start w Hgood Hw Hds HgA Hf) as (chart & Hc).
  exists (existsb (accepting fxB start) (last chart [])).
  assert (E : earley_accepts fxA fxB fuel g cstart start w = Ok (existsb (accepting fxB start) (last chart [])))
    by (unfold earley_accepts; rewrite Hc; reflexivity).
  split; [exact E|]. split.
  - intro Hb. apply (accept_sound g cstart Hgood Hnd Hw fxA fxB fuel start w Hds HgA HgB).
    rewrite E, Hb. reflexivity.
  - intro HL. apply (accepts_complete g cstart fxA fxB fuel start w _ Hgood Hw Hds Hcs HL E).
Qed.

(* parse answers SyntaxError exactly for the non-members *)
Theorem syntaxerr_iff : forall g cstart fxA fxB fuel start w k,
  good_grammar g -> NoDup (map fst g) -> defined g WRAP = false ->
  defined g start = true -> defined g cstart = true ->
  (fxA = true \/ K_multistart g start = false) ->
  (fxB = true \/ K_recstart g cstart start = false) ->
  fuel_bound (cgram g cstart) (length w) <= fuel ->
  (earley_parse fxA fxB fuel g cstart start w k = Raise SyntaxErr <-> ~ L g start w).
Proof.
  intros g cstart fxA fxB fuel start w k Hgood Hnd Hw Hds Hcs HgA HgB Hf. split.
  - apply reject_sound; assumption.
  - intro HnL. destruct (chart_enough_fuel g cstart fxA fuel start w Hgood Hw Hds HgA Hf) as (chart & Hc).
    unfold earley_parse. rewrite Hw, Hc.
    destruct (find (accepting fxB start) (last chart [])) as [st|] eqn:Hfind; [|reflexivity].
    exfalso. apply HnL. apply (accept_sound g cstart Hgood Hnd Hw fxA fxB fuel start w Hds HgA HgB).
    unfold earley_accepts. rewrite Hc. f_equal. apply find_some in Hfind as [Hin Hacc].
    apply existsb_exists. exists st. split; assumption.
Qed.

(* ---------------- a member is never answered with an empty forest ---------------- *)
Lemma product_nonempty {A} (ls : list (list A)) : Forall (fun l => l <> []) ls -> product ls <> [].
Proof.
  induction 1 as [|l ls Hl Hls IH]; simpl; [discriminate|].
  destruct l as [|x l]; [congruence|]. simpl. intro E. apply app_eq_nil in E as [E _].
  apply map_eq_nil in E. contradiction.
Qed.

Lemma trees_nonempty : forall fuel cg chart w it e ts,
  trees fuel cg chart w it e = Some ts -> ts <> [].
Proof.
  induction fuel as [|f IH]; intros cg chart w it e ts H; simpl in H; [discriminate|].
  match type of H with match ?p with [] => _ | _ :: _ => _ end = _ => destruct p as [|pe0 pes0] end.
  - inversion H. discriminate.
  - match type of H with option_map _ ?m = _ => destruct m as [tss|] eqn:Em end; [|discriminate].
    simpl in H. inversion H; subst ts.
    pose proof (mapM_Forall2 _ _ _ Em) as F1. inversion F1 as [|x y l r Hxy Hrest]; subst.
    simpl. intro E. apply app_eq_nil in E as [E _].
    simpl in Hxy.
    match type of Hxy with option_map _ ?m = _ => destruct m as [kss|] eqn:Ek end; [|discriminate].
    simpl in Hxy. inversion Hxy as [Ey]. rewrite <- Ey in E. apply map_eq_nil in E. revert E. apply product_nonempty.
    pose proof (mapM_Forall2 _ _ _ Ek) as F2. clear -F2 IH.
    induction F2 as [|el ks l r Hel HF IHF]; constructor; [|exact IHF].
    destruct el as [c|s e']; [inversion Hel; discriminate | eapply IH; exact Hel].
Qed.

(* the outcomes of parse for a MEMBER of the language, given enough fuel for the chart: a non-empty
   list of trees, or out-of-fuel of the tree enumeration (infinitely ambiguous / very deep forests);
   never SyntaxError, never an empty answer *)
Theorem parse_member_outcomes : forall g cstart fxA fxB fuel start w k,
  good_grammar g -> defined g WRAP = false ->
  defined g start = true -> defined g cstart = true ->
  (fxA = true \/ K_multistart g start = false) ->
  fuel_bound (cgram g cstart) (length w) <= fuel -> 0 < k ->
  L g start w ->
  (exists ts, ts <> [] /\ earley_parse fxA fxB fuel g cstart start w k = Ok ts) \/
  earley_parse fxA fxB fuel g cstart start w k = Raise OutOfFuel.
Proof.
  intros g cstart fxA fxB fuel start w k Hgood Hw Hds Hcs HgA Hf Hk HL.
  destruct (chart_enough_fuel g cstart fxA fuel start w Hgood Hw Hds HgA Hf) as (chart & Hc).
  pose proof Hgood as (Hkeys & _).
  pose proof (accept_complete g cstart Hkeys Hw fxA fxB fuel start w chart Hds Hcs HL Hc) as Hex.
  unfold earley_parse. rewrite Hw, Hc.
  destruct (find (accepting fxB start) (last chart [])) as [st|] eqn:Hfind.
  - destruct (trees fuel (cgram g cstart) chart w st (length w)) as [ts0|] eqn:Htr; [|right; reflexivity].
    left. exists (firstn k (map (prune g) ts0)). split; [|reflexivity].
    apply trees_nonempty in Htr. destruct ts0 as [|t0 ts0]; [congruence|].
    destruct k as [|k]; [lia|]. simpl. discriminate.
  - exfalso. apply existsb_exists in Hex as (st & Hin & Hacc).
    apply (find_none _ _ Hfind) in Hin. congruence.
Qed.

(* ---------------- non-vacuity of the hypotheses of the completeness theorems ---------------- *)
Example complete_hypotheses_satisfiable :
  (* <start> ::= <a>; <a> ::= "ab"<a> | "" : a member is parsed, a non-member answered SyntaxError *)
  canonical_form G_ex = true /\ NoDup (map fst G_ex) /\ defined G_ex START = true /\
  K_multistart G_ex START = false /\ K_recstart G_ex START START = false /\
  fuel_bound (cgram G_ex START) 4 <= 100 /\
  L G_ex START [97;98;97;98]%N /\
  (exists t, earley_parse false false 100 G_ex START START [97;98;97;98]%N 8 = Ok [t]) /\
  earley_parse false false 100 G_ex START START [97;98;97]%N 8 = Raise SyntaxErr /\
  earley_accepts false false 100 G_ex START START [97;98;97]%N = Ok false /\
  (* <start> ::= "a" | "b" : the constructor's start symbol has two alternatives ("<>" rule present) *)
  canonical_form G_multi = true /\ K_multistart G_multi START = true /\
  fuel_bound (cgram G_multi START) 1 <= 100 /\
  (exists t, earley_parse true true 100 G_multi START START [97]%N 8 = Ok [t] /\ wf_treeb G_multi t = true) /\
  earley_parse true true 100 G_multi START START [99]%N 8 = Raise SyntaxErr.
Proof.
  split; [reflexivity|]. split.
  { constructor; [intros [H|[]]; discriminate H | constructor; [intros [] | constructor]]. }
  split; [reflexivity|]. split; [reflexivity|]. split; [reflexivity|].
  split; [vm_compute; repeat constructor|].
  split; [apply (Lb_sound 6); vm_compute; reflexivity|].
  split; [eexists; vm_compute; reflexivity|].
  split; [vm_compute; reflexivity|]. split; [vm_compute; reflexivity|].
  split; [reflexivity|]. split; [reflexivity|].
  split; [vm_compute; repeat constructor|].
  split; [eexists; split; [vm_compute; reflexivity | vm_compute; reflexivity]|].
  vm_compute. reflexivity.
Qed.
