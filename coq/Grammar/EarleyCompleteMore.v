(* C10 proof extension 2 — the completeness theorems WITHOUT the hypothesis `defined g cstart = true`.
   The rule "<>" ::= cstart of the parser's grammar is never used by a derivation from a symbol of g;
   chart completeness is therefore proved for derivations of the SUB-GRAMMAR sct g (all rules of
   cgram g cstart except the "<>" rule), whose right-hand sides consist of defined symbols and
   single characters whatever cstart is. *)
From ISLA Require Import Grammar GrammarFacts Earley EarleyFacts EarleyPrune EarleyTop EarleyTrees
  EarleyComplete EarleyForest EarleyFuel EarleyWrap.
From Coq Require Import Lia PeanoNat List Bool.
Import ListNotations.

Lemma derives_sub (cg0 cg : grammar) :
  (forall A al, In al (alts cg0 A) -> In al (alts cg A)) ->
  forall x u, derives cg0 x u -> derives cg x u.
Proof.
  intros Hsub x u H. induction H as [|t rest u Ht Hd IH|A al rest u v HA Hal Hd1 IH1 Hd2 IH2].
  - constructor.
  - constructor; assumption.
  - eapply d_nt; [exact HA | apply Hsub; exact Hal | exact IH1 | exact IH2].
Qed.

Section CompleteSub.
  Variable cg cg0 : grammar.
  Variable w : str.
  Variable eps : list str.
  Variable chart : list column.
  Hypothesis Hkeys : forall A, defined cg A = true -> is_nt A = true.
  Hypothesis Hsub : forall A al, In al (alts cg0 A) -> In al (alts cg A).
  Hypothesis Hsyms0 : forall A al s, In al (alts cg0 A) -> In s al -> sym_ok cg s.
  Hypothesis Hnull : forall A, derives cg [A] [] -> mem A eps = true.
  Hypothesis Hclosed : chart_closed cg w eps chart.
  Notation col i := (nth i chart []).

  Lemma chart_complete_sub : forall beta u, derives cg0 beta u ->
    forall nm e d s i j, Forall (sym_ok cg) beta -> In (Item nm e d s) (col i) -> skipn d e = beta ->
      i <= j -> j <= length w -> u = sub w i j ->
      In (Item nm e (d + length beta) s) (col j).
  Proof.
    induction 1 as [|t rest u Ht Hd IH|A al rest u v HA Hal Hd1 IH1 Hd2 IH2];
      intros nm e d s i j Hok Hin Hsk Hij Hj Hu.
    - assert (E : length (sub w i j) = 0) by (rewrite <- Hu; reflexivity).
      rewrite sub_length in E by exact Hj. replace j with i by lia. simpl. rewrite Nat.add_0_r. exact Hin.
    - inversion Hok as [|t' rest' Hst Hrest]; subst t' rest'.
      destruct Hst as [Hdef|[c ->]]; [apply Hkeys in Hdef; congruence|].
      simpl in Hu. destruct (sub_cons_inv w i j c u Hu) as (Hn & Hlt & Hu').
      destruct (skipn_cons_nth e d [c] rest Hsk) as [Hdot Hsk'].
      assert (Hnd : defined cg [c] = false).
      { destruct (defined cg [c]) eqn:Edef; [|reflexivity]. apply Hkeys in Edef. congruence. }
      pose proof (closed_scan cg w eps chart Hclosed i (Item nm e d s) c Hin Hdot Hnd Hn) as Hadv.
      cbn [length]. rewrite Nat.add_succ_r. change (S (d + length rest)) with (S d + length rest).
      apply (IH nm e (S d) s (S i) j Hrest Hadv Hsk'); [lia | exact Hj | exact Hu'].
    - inversion Hok as [|t' rest' Hst Hrest]; subst t' rest'.
      destruct (sub_app_inv w i j u v Hij Hj Hu) as (Hk & Hu1 & Hv).
      destruct (skipn_cons_nth e d A rest Hsk) as [Hdot Hsk'].
      pose proof (Hsub A al Hal) as Hal'.
      assert (Hdef : defined cg A = true) by (eapply alts_defined; exact Hal').
      destruct (closed_predict cg w eps chart Hclosed i (Item nm e d s) A Hin Hdot Hdef) as [Hp1 Hp2].
      assert (Hfin : In (Item A al (0 + length al) i) (col (i + length u))).
      { apply (IH1 A al 0 i i (i + length u)); [|apply Hp1; exact Hal'|reflexivity|lia|lia|exact Hu1].
        apply Forall_forall. intros x Hx. apply (Hsyms0 A al x Hal Hx). }
      simpl in Hfin.
      assert (Hadv : In (Item nm e (S d) s) (col (i + length u))).
      { destruct u as [|c0 u0].
        - simpl. rewrite Nat.add_0_r. apply Hp2. apply Hnull.
          change (derives cg [A] ([] ++ [])).
          eapply d_nt; [exact HA | exact Hal' | exact (derives_sub cg0 cg Hsub _ _ Hd1) | constructor].
        - apply (closed_complete cg w eps chart Hclosed i (i + length (c0 :: u0)) (Item A al (length al) i) (Item nm e d s));
            [simpl; lia | exact Hfin | | reflexivity | exact Hin |].
          + unfold at_dot. simpl. apply nth_error_None. lia.
          + unfold wants, at_dot. cbn [iname iexpr idot iorg]. rewrite Hdot. apply str_eqb_refl. }
      cbn [length]. rewrite Nat.add_succ_r. change (S (d + length rest)) with (S d + length rest).
      apply (IH2 nm e (S d) s (i + length u) j Hrest Hadv Hsk'); [exact Hk | exact Hj | exact Hv].
  Qed.

  Theorem accept_complete_sub start fxB sd :
    (forall al, In al (alts cg start) -> In (Item start al 0 0) sd) ->
    incl sd (col 0) -> length chart = S (length w) -> is_nt start = true ->
    derives cg0 [start] w -> existsb (accepting fxB start) (last chart []) = true.
  Proof.
    intros Hsd Hinc Hl Hnt Hder.
    destruct (derives_single_inv cg0 start w Hnt Hder) as (al & Hal & Hd1).
    assert (Hfin : In (Item start al (0 + length al) 0) (col (length w))).
    { apply (chart_complete_sub al w Hd1 start al 0 0 0 (length w)); try lia; try reflexivity.
      - apply Forall_forall. intros x Hx. apply (Hsyms0 start al x Hal Hx).
      - apply Hinc, Hsd, Hsub, Hal.
      - symmetry. apply sub_full. }
    simpl in Hfin. rewrite (nth_error_nth _ _ _ (last_nth w chart Hl)) in Hfin.
    apply existsb_exists. exists (Item start al (length al) 0). split; [exact Hfin|].
    unfold accepting, finished. simpl. rewrite str_eqb_refl, Nat.leb_refl, orb_true_r. reflexivity.
  Qed.
End CompleteSub.

Section CgramCompleteMore.
  Variable g : grammar.
  Variable cstart : str.
  Hypothesis Hk : forall A, defined g A = true -> is_nt A = true.
  Hypothesis Hw : defined g WRAP = false.
  Let cg := cgram g cstart.
  Let cg0 := sct g.

  Lemma sct_sub A al : In al (alts cg0 A) -> In al (alts cg A).
  Proof.
    intro H. unfold cg, cgram. destruct (Nat.eqb (length (alts g cstart)) 1); [exact H|].
    rewrite alts_set_key; [exact H|].
    apply str_eqb_neq. intro E. subst A.
    apply alts_defined in H. unfold cg0, sct in H. rewrite defined_map in H. congruence.
  Qed.

  Lemma sct_syms A al s : In al (alts cg0 A) -> In s al -> sym_ok cg s.
  Proof.
    intros Hal Hs. unfold cg0, sct in Hal. rewrite alts_map in Hal.
    apply in_map_iff in Hal as (al0 & <- & _).
    unfold sct_alt in Hs. apply in_flat_map in Hs as (tok & _ & H). unfold sct_tok in H.
    destruct (defined g tok) eqn:Ed.
    - destruct H as [<-|[]]. left. apply (cgc_defined_of g cstart). exact Ed.
    - apply in_map_iff in H as (c & <- & _). right. exists c. reflexivity.
  Qed.

  Lemma transfer_rev0 syms u : derives g syms u -> derives cg0 (sct_alt g syms) u.
  Proof.
    induction 1 as [|t rest u Ht Hd IH|A al rest u v HA Hal Hd1 IH1 Hd2 IH2].
    - constructor.
    - rewrite sct_alt_cons. unfold sct_tok.
      assert (Hnd : defined g t = false).
      { destruct (defined g t) eqn:E; [|reflexivity]. apply Hk in E. congruence. }
      rewrite Hnd. apply derives_chars. exact IH.
    - rewrite sct_alt_cons. unfold sct_tok.
      assert (Hdef : defined g A = true) by (eapply alts_defined; exact Hal).
      rewrite Hdef. simpl. eapply d_nt; [exact HA | | exact IH1 | exact IH2].
      unfold cg0, sct. rewrite alts_map. apply in_map. exact Hal.
  Qed.

  (* COMPLETENESS of the recogniser, no assumption on the constructor's start symbol *)
  Theorem accept_complete_nocs fxA fxB fuel start w chart :
    defined g start = true ->
    L g start w -> chart_of fxA fuel cg start w = Ok chart ->
    existsb (accepting fxB start) (last chart []) = true.
  Proof.
    intros Hds HL H. unfold chart_of in H.
    destruct (seeds fxA cg start) as [sd|e] eqn:Hs; [|discriminate].
    destruct (fill_chart fuel cg (nullable cg) [] 0 (add_all [] sd) w) as [ch|] eqn:Hf; [|discriminate].
    inversion H; subst ch.
    destruct (fill_chart_chart_closed cg w (nullable cg) fuel sd chart Hf) as (Hcl & Hl & Hinc).
    apply (accept_complete_sub cg cg0 w (nullable cg) chart (cgc_keys g cstart Hk) sct_sub sct_syms
             (nullable_complete cg) Hcl start fxB sd).
    - intros al Hal. eapply seeds_cover; eauto.
    - exact Hinc.
    - exact Hl.
    - apply Hk. exact Hds.
    - pose proof (transfer_rev0 [start] w HL) as Hd. simpl in Hd. unfold sct_tok in Hd.
      rewrite Hds in Hd. exact Hd.
  Qed.
End CgramCompleteMore.

(* ---------------- statements exported in Props/C10.v ---------------- *)
Theorem accepts_complete_nocs : forall g cstart fxA fxB fuel start w b,
  good_grammar g -> defined g WRAP = false -> defined g start = true ->
  L g start w -> earley_accepts fxA fxB fuel g cstart start w = Ok b -> b = true.
Proof.
  intros g cstart fxA fxB fuel start w b (Hk & _) Hw Hds HL H. unfold earley_accepts in H.
  destruct (chart_of fxA fuel (cgram g cstart) start w) as [chart|e] eqn:Hc; [|discriminate].
  inversion H. apply (accept_complete_nocs g cstart Hk Hw fxA fxB fuel start w chart); assumption.
Qed.

Theorem reject_sound_nocs : forall g cstart fxA fxB fuel start w k,
  good_grammar g -> defined g start = true ->
  earley_parse fxA fxB fuel g cstart start w k = Raise SyntaxErr -> ~ L g start w.
Proof.
  intros g cstart fxA fxB fuel start w k (Hk & _) Hds H HL. unfold earley_parse in H.
  destruct (defined g WRAP) eqn:Hw; [discriminate|].
  destruct (chart_of fxA fuel (cgram g cstart) start w) as [chart|e] eqn:Hc.
  - pose proof (accept_complete_nocs g cstart Hk Hw fxA fxB fuel start w chart Hds HL Hc) as Hex.
    apply existsb_exists in Hex as (st & Hin & Hacc).
    destruct (find (accepting fxB start) (last chart [])) as [st'|] eqn:Hfind.
    + destruct (trees fuel (cgram g cstart) chart w st' (length w)); discriminate.
    + apply (find_none _ _ Hfind) in Hin. congruence.
  - unfold chart_of in Hc. destruct (seeds fxA (cgram g cstart) start) as [sd|e'] eqn:Hs.
    + destruct (fill_chart fuel (cgram g cstart) (nullable (cgram g cstart)) [] 0 (add_all [] sd) w);
        [discriminate|]. inversion Hc; subst e. discriminate.
    + inversion Hc; subst e'. unfold seeds in Hs.
      destruct (negb (defined (cgram g cstart) start)); [inversion Hs; subst e; discriminate|].
      destruct fxA; [discriminate|].
      destruct (alts (cgram g cstart) start) as [|a [|b l]]; try discriminate.
      inversion Hs; subst e. discriminate.
Qed.

Theorem accepts_iff_nocs : forall g cstart fxA fxB fuel start w,
  good_grammar g -> NoDup (map fst g) -> defined g WRAP = false ->
  defined g start = true ->
  (fxA = true \/ K_multistart g start = false) ->
  (fxB = true \/ K_recstart g cstart start = false) ->
  fuel_bound (cgram g cstart) (length w) <= fuel ->
  exists b, earley_accepts fxA fxB fuel g cstart start w = Ok b /\ (b = true <-> L g start w).
Proof.
  intros g cstart fxA fxB fuel start w Hgood Hnd Hw Hds HgA HgB Hf.
  destruct (chart_enough_fuel g cstart fxA fuel start w Hgood Hw Hds HgA Hf) as (chart & Hc).
  exists (existsb (accepting fxB start) (last chart [])).
  assert (E : earley_accepts fxA fxB fuel g cstart start w = Ok (existsb (accepting fxB start) (last chart [])))
    by (unfold earley_accepts; rewrite Hc; reflexivity).
  split; [exact E|]. split.
  - intro Hb. apply (accept_sound g cstart Hgood Hnd Hw fxA fxB fuel start w Hds HgA HgB).
    rewrite E, Hb. reflexivity.
  - intro HL. apply (accepts_complete_nocs g cstart fxA fxB fuel start w _ Hgood Hw Hds HL E).
Qed.

Theorem syntaxerr_iff_nocs : forall g cstart fxA fxB fuel start w k,
  good_grammar g -> NoDup (map fst g) -> defined g WRAP = false ->
  defined g start = true ->
  (fxA = true \/ K_multistart g start = false) ->
  (fxB = true \/ K_recstart g cstart start = false) ->
  fuel_bound (cgram g cstart) (length w) <= fuel ->
  (earley_parse fxA fxB fuel g cstart start w k = Raise SyntaxErr <-> ~ L g start w).
Proof.
  intros g cstart fxA fxB fuel start w k Hgood Hnd Hw Hds HgA HgB Hf. split.
  - apply reject_sound_nocs; assumption.
  - intro HnL. destruct (chart_enough_fuel g cstart fxA fuel start w Hgood Hw Hds HgA Hf) as (chart & Hc).
    unfold earley_parse. rewrite Hw, Hc.
    destruct (find (accepting fxB start) (last chart [])) as [st|] eqn:Hfind; [|reflexivity].
    exfalso. apply HnL. apply (accept_sound g cstart Hgood Hnd Hw fxA fxB fuel start w Hds HgA HgB).
    unfold earley_accepts. rewrite Hc. f_equal. apply find_some in Hfind as [Hin Hacc].
    apply existsb_exists. exists st. split; assumption.
Qed.
