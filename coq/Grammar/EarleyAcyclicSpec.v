(* C10 proof extension 2 — the boolean guard `acyclicb` means what its name says: the grammar has
   no cyclic unit/nullable derivation  A =>+ A  (declarative relation `ustep`, transitive closure). *)
From ISLA Require Import Grammar GrammarFacts Earley EarleyFacts EarleyPrune EarleyTop EarleyTrees EarleyComplete
  EarleyFuel EarleyAcyclic EarleyHarnessFuel.
From Coq Require Import Lia PeanoNat List Bool Relations.
Import ListNotations.

(* A -> a x c is a rule and every symbol of a and of c derives the empty string *)
Definition ustep (cg : grammar) (A x : str) : Prop :=
  exists e a c, In e (alts cg A) /\ e = a ++ x :: c /\
    Forall (fun t => derives cg [t] []) a /\ Forall (fun t => derives cg [t] []) c.
Definition acyclic (cg : grammar) : Prop := forall A, ~ clos_trans str (ustep cg) A A.

Lemma usyms_inv eps e x : In x (usyms eps e) ->
  exists a c, e = a ++ x :: c /\ Forall (fun t => mem t eps = true) a /\ Forall (fun t => mem t eps = true) c.
Proof.
  induction e as [|y e IH]; simpl; [intros []|]. intro H. apply in_app_or in H as [H|H].
  - destruct (forallb (fun t => mem t eps) e) eqn:E; [|destruct H]. destruct H as [<-|[]].
    exists [], e. split; [reflexivity|]. split; [constructor|].
    apply Forall_forall. rewrite forallb_forall in E. exact E.
  - destruct (mem y eps) eqn:Ey; [|destruct H]. destruct (IH H) as (a & c & -> & Ha & Hc).
    exists (y :: a), c. split; [reflexivity|]. split; [constructor; assumption | exact Hc].
Qed.

Lemma not_NoDup_split (l : list str) : ~ NoDup l -> exists a l1 l2 l3, l = l1 ++ a :: l2 ++ a :: l3.
Proof.
  induction l as [|x l IH]; intro H; [exfalso; apply H; constructor|].
  destruct (in_dec (list_eq_dec N.eq_dec) x l) as [Hin|Hnin].
  - apply in_split in Hin as (l2 & l3 & ->). exists x, [], l2, l3. reflexivity.
  - destruct IH as (a & l1 & l2 & l3 & ->); [intro Hnd; apply H; constructor; assumption|].
    exists a, (x :: l1), l2, l3. reflexivity.
Qed.

Lemma ct_in_rt {A} (R : relation A) x y : clos_trans A R x y -> clos_refl_trans A R x y.
Proof.
  induction 1 as [x y H|x y z _ IH1 _ IH2]; [apply rt_step; exact H | eapply rt_trans; eassumption].
Qed.

Section Spec.
  Variable cg : grammar.
  Hypothesis Hkeys : forall A, defined cg A = true -> is_nt A = true.
  Hypothesis Hnd : NoDup (map fst cg).
  Let eps := nullable cg.

  Lemma null_iff t : mem t eps = true <-> derives cg [t] [].
  Proof. split; [apply nullable_sound; assumption | apply nullable_complete]. Qed.

  Lemma Forall_null l : Forall (fun t => mem t eps = true) l <-> Forall (fun t => derives cg [t] []) l.
  Proof. split; intro H; eapply Forall_impl; try exact H; intros t Ht; apply null_iff; exact Ht. Qed.

  Lemma ustep_rname A x : ustep cg A x -> In A (rnames cg).
  Proof.
    intros (e & _ & _ & He & _). unfold rnames. apply in_map_iff. exists (A, e).
    split; [reflexivity | apply alts_rules; exact He].
  Qed.

  Lemma usucc_ustep A x : In x (usucc cg eps A) -> ustep cg A x /\ In x (rnames cg).
  Proof.
    unfold usucc. intro H. apply filter_In in H as [H Hm]. apply mem_In in Hm. split; [|exact Hm].
    apply in_flat_map in H as (e & He & Hx). apply usyms_inv in Hx as (a & c & E & Ha & Hc).
    exists e, a, c. split; [exact He|]. split; [exact E|]. split; apply Forall_null; assumption.
  Qed.

  Lemma ustep_usucc A x : ustep cg A x -> In x (rnames cg) -> In x (usucc cg eps A).
  Proof.
    intros (e & a & c & He & E & Ha & Hc) Hx. unfold usucc. apply filter_In. split; [|apply mem_In; exact Hx].
    apply in_flat_map. exists e. split; [exact He|]. rewrite E. apply usyms_in; apply Forall_null; assumption.
  Qed.

  (* a cycle gives walks of every length *)
  Lemma cycle_walk A : clos_trans str (ustep cg) A A ->
    forall n X, clos_refl_trans str (ustep cg) X A -> walkb cg eps n X = true.
  Proof.
    intros Hcyc. induction n as [|n IH]; intros X HX; [reflexivity|].
    assert (Hstep : exists Y, ustep cg X Y /\ clos_refl_trans str (ustep cg) Y A).
    { apply clos_rt_rt1n in HX. inversion HX as [E|Y Z HXY HYZ E].
      - subst X. pose proof (clos_trans_t1n _ _ _ _ Hcyc) as H1. inversion H1 as [Y HXY E|Y Z HXY HYZ E].
        + exists A. split; [exact HXY | apply rt_refl].
        + exists Y. split; [exact HXY|]. apply clos_t1n_trans in HYZ. apply ct_in_rt. exact HYZ.
      - exists Y. split; [exact HXY|]. apply clos_rt1n_rt. exact HYZ. }
    destruct Hstep as (Y & HXY & HYA). simpl. apply existsb_exists. exists Y. split; [|apply IH; exact HYA].
    apply ustep_usucc; [exact HXY|].
    (* Y has a successor, hence a rule *)
    apply clos_rt_rt1n in HYA. inversion HYA as [E|Y' Z HY HZ E]; [|eapply ustep_rname; exact HY].
    subst Y. pose proof (clos_trans_t1n _ _ _ _ Hcyc) as H1.
    inversion H1 as [Y' HY E|Y' Z HY HZ E]; eapply ustep_rname; exact HY.
  Qed.

  (* chains of unit steps *)
  Fixpoint chain (x : str) (l : list str) : Prop :=
    match l with [] => True | y :: l' => ustep cg x y /\ chain y l' end.

  Lemma walk_chain : forall n A, walkb cg eps n A = true ->
    exists l, length l = n /\ chain A l /\ incl l (rnames cg).
  Proof.
    induction n as [|n IH]; intros A H.
    - exists []. split; [reflexivity|]. split; [exact I | intros x []].
    - simpl in H. apply existsb_exists in H as (Y & HY & Hw). apply usucc_ustep in HY as [Hs Hr].
      destruct (IH Y Hw) as (l & Hl & Hc & Hi). exists (Y :: l). split; [simpl; congruence|].
      split; [split; assumption|]. intros x [<-|Hx]; [exact Hr | apply Hi; exact Hx].
  Qed.

  Lemma chain_app x l1 y l2 : chain x (l1 ++ y :: l2) -> chain y l2 /\ clos_trans str (ustep cg) x y.
  Proof.
    revert x. induction l1 as [|z l1 IH]; intros x H; simpl in H.
    - destruct H as [Hs Hc]. split; [exact Hc | apply t_step; exact Hs].
    - destruct H as [Hs Hc]. destruct (IH z Hc) as [Hc' Ht]. split; [exact Hc'|].
      eapply t_trans; [apply t_step; exact Hs | exact Ht].
  Qed.

  Theorem acyclicb_spec : acyclicb cg = true <-> acyclic cg.
  Proof.
    split.
    - intros Hb A Hcyc. unfold acyclicb in Hb. rewrite forallb_forall in Hb.
      assert (HA : In A (rnames cg)).
      { pose proof (clos_trans_t1n _ _ _ _ Hcyc) as H1.
        inversion H1 as [Y HY E|Y Z HY HZ E]; eapply ustep_rname; exact HY. }
      specialize (Hb A HA). apply negb_true_iff in Hb.
      rewrite (cycle_walk A Hcyc _ A (rt_refl _ _ _)) in Hb. discriminate.
    - intro Hac. unfold acyclicb. apply forallb_forall. intros A HA. apply negb_true_iff.
      destruct (walkb cg (nullable cg) (length (rules cg)) A) eqn:Hw; [|reflexivity]. exfalso.
      destruct (walk_chain _ A Hw) as (l & Hl & Hc & Hi).
      assert (Hdup : ~ NoDup (A :: l)).
      { intro Hn. assert (Hincl : incl (A :: l) (rnames cg)) by (intros x [<-|Hx]; [exact HA | apply Hi; exact Hx]).
        pose proof (NoDup_incl_length Hn Hincl) as Hlen. unfold rnames in Hlen. rewrite map_length in Hlen.
        simpl in Hlen. lia. }
      apply not_NoDup_split in Hdup as (a & l1 & l2 & l3 & E).
      assert (Hcyc : clos_trans str (ustep cg) a a).
      { destruct l1 as [|z l1]; simpl in E; inversion E; subst.
        - apply (chain_app a l2 a l3). exact Hc.
        - destruct (chain_app z l1 a (l2 ++ a :: l3) Hc) as [Hc' _].
          apply (chain_app a l2 a l3). exact Hc'. }
      exact (Hac a Hcyc).
  Qed.
End Spec.

(* for the parser's grammar *)
Theorem acyclicb_cgram_spec : forall g cstart,
  good_grammar g -> NoDup (map fst g) -> defined g WRAP = false ->
  (acyclicb (cgram g cstart) = true <-> acyclic (cgram g cstart)).
Proof.
  intros g cstart Hgood Hnd Hw. pose proof Hgood as (Hk & _). apply acyclicb_spec.
  - apply cgc_keys. exact Hk.
  - apply cg_NoDup; assumption.
Qed.

(* ---------------- witnesses ---------------- *)
Definition E_ : str := [60;101;62]%N.
Definition B_ : str := [60;98;62]%N.
(* <start> ::= <e>; <e> ::= <e>"+"<e> | "a"   (ambiguous, acyclic) *)
Definition G_amb : grammar := [(START, [[E_]]); (E_, [[E_; [43]%N; E_]; [[97]%N]])].
(* <start> ::= <a>; <a> ::= <b> | "a"; <b> ::= <a><b> | ""   (<a> =>+ <a>: infinitely ambiguous) *)
Definition G_cyc : grammar := [(START, [[A_]]); (A_, [[B_]; [[97]%N]]); (B_, [[A_; B_]; []])].

(* non-vacuity of the hypotheses of parse_complete / parse_iff / parse_total, with the fuel the
   harness would pass; an ambiguous grammar: both trees of a+a+a are delivered *)
Example parse_complete_hypotheses_satisfiable :
  canonical_form G_amb = true /\ NoDup (map fst G_amb) /\ defined G_amb START = true /\
  K_multistart G_amb START = false /\ K_recstart G_amb START START = false /\
  acyclicb (cgram G_amb START) = true /\
  fuel_bound (cgram G_amb START) 5 <= harness_fuel G_amb 5 /\
  L G_amb START [97;43;97;43;97]%N /\
  (exists t1 t2, earley_parse false false (harness_fuel G_amb 5) G_amb START START [97;43;97;43;97]%N 8 = Ok [t1; t2]
                 /\ wf_treeb G_amb t1 = true /\ wf_treeb G_amb t2 = true) /\
  earley_parse false false (harness_fuel G_amb 5) G_amb START START [97;43]%N 8 = Raise SyntaxErr /\
  canonical_form G_ex = true /\ acyclicb (cgram G_ex START) = true /\
  canonical_form G_multi = true /\ acyclicb (cgram G_multi START) = true.
Proof.
  split; [reflexivity|]. split.
  { constructor; [intros [H|[]]; discriminate H | constructor; [intros [] | constructor]]. }
  split; [reflexivity|]. split; [reflexivity|]. split; [reflexivity|].
  split; [vm_compute; reflexivity|].
  split; [apply harness_fuel_ok; apply Nat.le_refl|].
  split; [apply (Lb_sound 6); vm_compute; reflexivity|].
  split; [eexists; eexists; split; [vm_compute; reflexivity | split; vm_compute; reflexivity]|].
  split; [vm_compute; reflexivity|].
  split; [reflexivity|]. split; [vm_compute; reflexivity|]. split; [reflexivity|]. vm_compute; reflexivity.
Qed.

(* WITHOUT the guard the statement is false OF THE MODEL: the model enumerates the whole forest
   before it answers, which is infinite for a cyclic grammar; the Python generator is lazy and
   yields a first tree.  (A limit of the model, not a defect of the code: such grammars are outside
   the property's quantifier and the harness does not generate them.) *)
Example parse_complete_unguarded_refuted :
  canonical_form G_cyc = true /\ NoDup (map fst G_cyc) /\ K_multistart G_cyc START = false /\
  acyclicb (cgram G_cyc START) = false /\
  L G_cyc START [97]%N /\ fuel_bound (cgram G_cyc START) 1 <= 200 /\
  earley_accepts true true 200 G_cyc START START [97]%N = Ok true /\
  earley_parse true true 200 G_cyc START START [97]%N 1 = Raise OutOfFuel.
Proof.
  split; [reflexivity|]. split.
  { constructor; [intros [H|[H|[]]]; discriminate H |
      constructor; [intros [H|[]]; discriminate H | constructor; [intros [] | constructor]]]. }
  split; [reflexivity|]. split; [vm_compute; reflexivity|].
  split; [apply (Lb_sound 4); vm_compute; reflexivity|].
  split; [vm_compute; repeat constructor|].
  split; vm_compute; reflexivity.
Qed.
