(* C14 — proof extension (1b): count_result_sound for the candidates that insert_tree (C13 model,
   Grammar/Insert.v) actually produces.  count() calls insert_tree with
   methods = DIRECT_EMBEDDING | SELF_EMBEDDING, i.e. K_ctx m = false. *)
From ISLA Require Import Grammar GrammarFacts TreeFacts FixedLen FixedLenFacts FixedLenCountMore.
From ISLA Require Import Insert InsertFacts InsertSelfMore.

Theorem count_insert_result_sound reach needle fuel g chain pb maxn m ins host rs cand c :
  closed_g g -> chain_ok chain -> wf_tree g host -> wf_tree g ins -> uniq_ids host ins ->
  K_ctx m = false ->
  insert_tree g chain pb maxn m ins host = Ok rs -> In cand rs ->
  finish_candidate reach fuel g needle cand = FinTree c ->
  inserted g host ins cand /\
  count_target_met reach needle (occurrences needle cand) c.
Proof.
  intros Hg Hch Hh Hi Hu HK Hins Hin Hfin.
  pose proof (insert_tree_noctx_ok g chain pb maxn m ins host rs cand Hg Hch Hh Hi Hu HK Hins Hin) as HI.
  split; [assumption|].
  apply (finish_candidate_target_met reach needle g fuel cand c); [|assumption].
  destruct HI as (Hw & _). eapply wf_tree_shape_ok. eassumption.
Qed.

(* non-vacuity on the C13 running example (expression grammar): needle <e>, every nonterminal but
   <d> reaches it; the first candidate returned by insert_tree has two <e> nodes and an open <f>
   leaf, which is completed to <f>(<d>) without a new <e>. *)
Definition ci_reach (a b : str) : bool := negb (str_eqb a s8).

Example count_insert_nonvacuous :
  closed_g InsertFacts.ex_g /\ chain_ok ex_chain /\ wf_tree InsertFacts.ex_g ex_host /\
  wf_tree InsertFacts.ex_g ex_ins /\ uniq_ids ex_host ex_ins /\ K_ctx 3 = false /\
  exists rs cand c,
    insert_tree InsertFacts.ex_g ex_chain ex_pb 50 3 ex_ins ex_host = Ok rs /\
    nth_error rs 0 = Some cand /\
    finish_candidate ci_reach 50 InsertFacts.ex_g s1 cand = FinTree c /\
    tree_seqb c cand = false /\ count_nodes s1 cand = 2 /\ count_nodes s1 c = 2.
Proof.
  destruct ex_hyps as (H1 & H2 & H3 & H4).
  split; [assumption|]. split; [assumption|]. split; [assumption|]. split; [assumption|].
  split; [apply ex_uniq|]. split; [reflexivity|].
  eexists. eexists. eexists.
  split; [vm_compute; reflexivity|]. split; [reflexivity|].
  split; [vm_compute; reflexivity|]. split; vm_compute; auto.
Qed.
