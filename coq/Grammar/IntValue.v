(* C14 proof extension 3 — MODEL (no proofs) of ISLaSolver.extract_model_value_int_var
   (src/isla/solver.py), the helper that turns the integer Z3 found for an "int variable" into a
   derivation tree of the variable's nonterminal:

       str_model_value = model[fresh_var_map[var]].as_string()      # Z3 Int numeral: "5", "-5"
       int_model_value = int(str_model_value)
       try:    return self.parse(str(int_model_value), var.n_type, silent=True)
       except SyntaxError:
           <Z3 query>  maybe_plus in ("+")?,  padding in "0"*,
                       (maybe_plus | "-") ++ padding ++ str(|n|)  in  extract_regular_expression(n_type)
           if z3_solver.check() != z3.sat:  raise RuntimeError("Could not parse a numeric solution ...")
           return self.parse((maybe_plus | "-") + padding + str(|n|), var.n_type)

   * the integer is the input `z : Z` (as_string of a Z3 integer numeral is Python's str(z));
   * ISLaSolver.parse(inp, nt) is the C10 model `Earley.solver_parse` (EarleyParser on the
     specialised grammar  delete_unreachable(g | {"<start>": [nt]}),  first tree, child 0);
   * the Z3 query is an ORACLE `oracle nt z : option (bool * nat)`: None = "not sat" (unsat, or
     unknown after the 300 ms timeout), Some (plus, k) = the model values  maybe_plus = "+" iff plus,
     padding = "0"^k.  Only the SHAPE of the answer is built into the model (Z3's model satisfies the
     two InRe constraints on the auxiliary variables); that the candidate is accepted by the regular
     expression / the language is NOT assumed by the model — a candidate outside the language makes
     the second parse raise SyntaxError, exactly like the code (no `except` around it).
   * every exception other than SyntaxError of the first parse propagates (the `except` clause names
     SyntaxError only).
   The dispatcher around it (`var not in int_vars` -> fallback) is not part of this model. *)
From ISLA Require Export Str Outcome Tree Grammar Earley.
From ISLA Require Import SemPreds EarleyHarnessFuel.
From Coq Require Import ZArith List Bool.
Import ListNotations.

(* Python str(z) for an int *)
Definition py_str_Z (z : Z) : str :=
  if (z <? 0)%Z then 45%N :: dec_of_N (Z.abs_N z) else dec_of_N (Z.abs_N z).

Definition zeros (k : nat) : str := repeat 48%N k.

(* (maybe_plus | "-") + padding + str(|z|) *)
Definition cand (z : Z) (plus : bool) (k : nat) : str :=
  (if (z <? 0)%Z then [45%N] else if plus then [43%N] else []) ++ zeros k ++ dec_of_N (Z.abs_N z).

Definition int_oracle := str -> Z -> option (bool * nat).

Definition int_value (fxA fxB : bool) (fuelf : str -> nat) (g : grammar) (oracle : int_oracle)
    (nt : str) (z : Z) : res tree :=
  let parse w := solver_parse fxA fxB (fuelf w) g nt w in
  match parse (py_str_Z z) with
  | Raise SyntaxErr =>
      match oracle nt z with
      | None => Raise RuntimeErr
      | Some (plus, k) => parse (cand z plus k)
      end
  | r => r
  end.

(* the fuel the check hands to the model: EarleyHarnessFuel.harness_fuel of the ORIGINAL grammar and
   the length of the parsed string (proved sufficient for the chart: IntValueFacts.hfuel_ok) *)
Definition hfuel (g : grammar) (w : str) : nat := harness_fuel g (length w).

(* ---- the integer denoted by a string: optional sign, then one or more decimal digits (zero
   padding included).  Used by the theorems AND by the check as acceptance test of every tree the
   implementation returns. ---- *)
Definition is_dig (c : chr) : bool := (48 <=? c)%N && (c <=? 57)%N.
Definition digs_val (s : str) : option N :=
  match s with
  | [] => None
  | _ => if forallb is_dig s then Some (fold_left (fun a c => a * 10 + (c - 48))%N s 0%N) else None
  end.
Definition intval (s : str) : option Z :=
  match s with
  | [] => None
  | c :: r => if (c =? 43)%N then option_map Z.of_N (digs_val r)
              else if (c =? 45)%N then option_map (fun v => (- Z.of_N v)%Z) (digs_val r)
              else option_map Z.of_N (digs_val s)
  end.

Definition optZ_eqb (a b : option Z) : bool :=
  match a, b with Some x, Some y => Z.eqb x y | None, None => true | _, _ => false end.

(* acceptance of an implementation result: valid closed derivation tree of nt denoting z *)
Definition meets_int (g : grammar) (nt : str) (z : Z) (t : tree) : bool :=
  wf_treeb g t && closedb t && str_eqb (lbl t) nt && optZ_eqb (intval (yield t)) (Some z).

