(* C12 — model of isla.mutator.Mutator as a nondeterministic transition system
   (no proofs in this file).

   Python (src/isla/mutator.py), as it is:
     mutate(inp): n := randint(min_mutations, max_mutations); apply randomly chosen
       mutators until n of them returned Some(tree).            -- here: mutate_star
     replace_subtree_randomly(inp): pick (path, subtree) with subtree.children non-empty;
       expand_tree(inp.replace_path(path, DerivationTree(subtree.value)))   -- m_replace
     swap_subtrees(inp): pick two nodes, neither path a prefix of the other
       (parent_or_child), equal values;
       inp.replace_path(p1, tree_2).replace_path(p2, tree_1)                -- m_swap
     generalize_subtree(inp): pick (path, tree) with children and a grammar cycle through
       tree.value; e := one of path_to_tree(grammar, cycle) (a tree grown from an open
       leaf `tree.value` by expanding one nonterminal per level, every other nonterminal
       left open -- existential_helpers.path_to_tree / make_leaves_open); pick an (open)
       leaf q of e with value tree.value;
       expand_tree(inp.replace_path(path, e.replace_path(q, tree)))         -- m_generalize
     DerivationTree.replace_path(path, new): parents keep value and id.
   Abstracted: every random choice; the cycle chosen through the grammar graph is
   over-approximated by "any tree reachable from the open leaf by expansion steps". *)
From ISLA Require Export Fuzz.

Fixpoint replace_path (t : tree) (p : path) (s : tree) : option tree :=
  match p with
  | [] => Some s
  | i :: p' =>
      match t with
      | Node l id o ks =>
          match nth_error ks i with
          | Some k => match replace_path k p' s with
                      | Some k' => Some (Node l id o (firstn i ks ++ k' :: skipn (S i) ks))
                      | None => None
                      end
          | None => None
          end
      end
  end.

Inductive mutate1 (g : grammar) : tree -> tree -> Prop :=
| m_replace : forall t p s j t1 t',
    subtree t p = Some s -> kids s <> [] ->
    replace_path t p (Node (lbl s) j true []) = Some t1 ->
    fuzz_expand g t1 t' -> mutate1 g t t'
| m_swap : forall t p1 p2 s1 s2 t1 t',
    subtree t p1 = Some s1 -> subtree t p2 = Some s2 ->
    ~ prefix p1 p2 -> ~ prefix p2 p1 -> lbl s1 = lbl s2 ->
    replace_path t p1 s2 = Some t1 -> replace_path t1 p2 s1 = Some t' ->
    mutate1 g t t'
| m_generalize : forall t p s j e q j' e' t1 t',
    subtree t p = Some s -> kids s <> [] ->
    expand_star g (Node (lbl s) j true []) e ->
    q <> [] -> subtree e q = Some (Node (lbl s) j' true []) ->
    replace_path e q s = Some e' -> replace_path t p e' = Some t1 ->
    fuzz_expand g t1 t' -> mutate1 g t t'.

Inductive mutate_star (g : grammar) : tree -> tree -> Prop :=
| ms_refl : forall t, mutate_star g t t
| ms_step : forall t u v, mutate1 g t u -> mutate_star g u v -> mutate_star g t v.

(* ---- executable acceptance procedures for observed (input, output) pairs ---- *)
Fixpoint tree_eqb (a b : tree) {struct a} : bool :=
  match a, b with
  | Node l i o ks, Node l' i' o' ks' =>
      str_eqb l l' && N.eqb i i' && Bool.eqb o o' &&
      (fix all2 (ks ks' : list tree) {struct ks} : bool :=
         match ks, ks' with
         | [], [] => true
         | k :: r, k' :: r' => tree_eqb k k' && all2 r r'
         | _, _ => false
         end) ks ks'
  end.

Definition has_kids (s : tree) : bool := match kids s with [] => false | _ => true end.

(* output of Mutator.mutate: a closed valid tree with the root symbol of the input *)
Definition accept_mutate (g : grammar) (t out : tree) : bool :=
  wf_treeb g out && closedb out && str_eqb (lbl out) (lbl t).

(* output of replace_subtree_randomly: a completion of the input pruned at some inner node *)
Definition accept_replace (g : grammar) (t out : tree) : bool :=
  closedb out &&
  existsb (fun ps => has_kids (snd ps) &&
                     match replace_path t (fst ps) (Node (lbl (snd ps)) 0 true []) with
                     | Some t1 => is_completionb g t1 out
                     | None => false
                     end) (nodes t).

(* output of swap_subtrees: the two-step replacement at some admissible pair of positions *)
Definition swap_at (t : tree) (p1 p2 : path) : option tree :=
  match subtree t p1, subtree t p2 with
  | Some s1, Some s2 =>
      if prefixb p1 p2 || prefixb p2 p1 then None
      else if str_eqb (lbl s1) (lbl s2) then
        match replace_path t p1 s2 with
        | Some t1 => replace_path t1 p2 s1
        | None => None
        end
      else None
  | _, _ => None
  end.

Definition accept_swap (t out : tree) : bool :=
  existsb (fun p1 => existsb (fun p2 => match swap_at t p1 p2 with
                                        | Some r => tree_eqb r out
                                        | None => false
                                        end) (positions t)) (positions t).

(* swap_subtrees returns Nothing exactly when no admissible pair exists *)
Definition swappable (t : tree) : bool :=
  existsb (fun p1 => existsb (fun p2 => match swap_at t p1 p2 with Some _ => true | None => false end)
                             (positions t)) (positions t).

(* output of generalize_subtree: a completion of the input pruned at some inner node p,
   in which the old subtree at p reappears unchanged strictly below p *)
Definition accept_generalize (g : grammar) (t out : tree) : bool :=
  closedb out &&
  existsb (fun ps => has_kids (snd ps) &&
                     match replace_path t (fst ps) (Node (lbl (snd ps)) 0 true []) with
                     | Some t1 =>
                         is_completionb g t1 out &&
                         match subtree out (fst ps) with
                         | Some o => existsb (fun qs => match fst qs with [] => false | _ => tree_eqb (snd qs) (snd ps) end)
                                             (nodes o)
                         | None => false
                         end
                     | None => false
                     end) (nodes t).

(* classes of recorded defects (guards of the _partial statements) *)
(* replace_subtree_randomly on a tree without any node that has children: random.choices([]) *)
Definition K_no_inner (t : tree) : bool := negb (has_kids t).
(* swap_subtrees raises TypeError for EVERY input with the installed `returns` (fix proposed):
   the class of that finding is the whole input space *)
Definition K_swap_any (t : tree) : bool := true.
