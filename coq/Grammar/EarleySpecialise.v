(* Facts about the grammar specialisation  delete_unreachable (set_key g "<start>" [[nt]])
   (Earley.v: reachable / delete_unreachable / set_key), as used by isla_predicates.mk_parser
   and ISLaSolver.parse:  the closure computed by `reachable` IS closed, the specialised grammar
   is again a canonical grammar that satisfies every side condition of the C10 theorems, its
   trees below <start> are trees of g, and  L (spec g nt) <start> = L g nt.
   Proofs only; no new model definitions. *)
From ISLA Require Import Grammar GrammarFacts Earley EarleyFacts EarleyPrune EarleyTop EarleyComplete EarleyWrap.
From Coq Require Import Lia PeanoNat List Bool.
Import ListNotations.

Definition spec_grammar (g : grammar) (nt : str) : grammar := delete_unreachable (set_key g START [[nt]]).

(* ------------------------------------------------------------------ *)
(* the set-insertion fold of reach_step                                *)
(* ------------------------------------------------------------------ *)
Definition addn (acc : list str) (B : str) : list str := if mem B acc then acc else acc ++ [B].

Lemma addn_In acc B x : In x (addn acc B) <-> In x acc \/ x = B.
Proof.
  unfold addn. destruct (mem B acc) eqn:E.
  - apply mem_In in E. split; [intro H; left; exact H|]. intros [H|H]; [exact H | subst; exact E].
  - rewrite in_app_iff. simpl. intuition congruence.
Qed.

Lemma addn_NoDup acc B : NoDup acc -> NoDup (addn acc B).
Proof.
  intro H. unfold addn. destruct (mem B acc) eqn:E; [exact H|].
  apply NoDup_snoc; [exact H|]. intro HB. apply mem_In in HB. rewrite HB in E. discriminate.
Qed.

Lemma fold_addn_In l : forall acc x, In x (fold_left addn l acc) <-> In x acc \/ In x l.
Proof.
  induction l as [|b l IH]; intros acc x; simpl.
  - split; [intro H; left; exact H | intros [H|[]]; exact H].
  - rewrite IH, addn_In. split.
    + intros [[H|H]|H]; auto.
    + intros [H|[H|H]]; auto.
Qed.

Lemma fold_addn_NoDup l : forall acc, NoDup acc -> NoDup (fold_left addn l acc).
Proof. induction l as [|b l IH]; intros acc H; simpl; [exact H|]. apply IH. apply addn_NoDup. exact H. Qed.

Lemma addn_mem acc b : mem b acc = true -> addn acc b = acc.
Proof. intro E. unfold addn. rewrite E. reflexivity. Qed.
Lemma addn_new acc b : mem b acc = false -> addn acc b = acc ++ [b].
Proof. intro E. unfold addn. rewrite E. reflexivity. Qed.

Lemma fold_addn_fix l : forall acc, incl l acc -> fold_left addn l acc = acc.
Proof.
  induction l as [|b l IH]; intros acc H; simpl; [reflexivity|].
  assert (Hb : mem b acc = true) by (apply mem_In; apply H; left; reflexivity).
  rewrite (addn_mem acc b Hb). apply IH. intros x Hx. apply H. right. exact Hx.
Qed.

Lemma addn_length acc B : length acc <= length (addn acc B).
Proof. unfold addn. destruct (mem B acc); [lia|]. rewrite app_length. simpl. lia. Qed.

Lemma fold_addn_length l : forall acc, length acc <= length (fold_left addn l acc).
Proof.
  induction l as [|b l IH]; intros acc; simpl; [lia|].
  pose proof (IH (addn acc b)) as H1. pose proof (addn_length acc b) as H2. lia.
Qed.

Lemma fold_addn_grows l : forall acc x, In x l -> ~ In x acc -> length acc < length (fold_left addn l acc).
Proof.
  induction l as [|b l IH]; intros acc x Hx Hn; simpl; [contradiction|].
  destruct (mem b acc) eqn:E.
  - rewrite (addn_mem acc b E). destruct Hx as [Hx|Hx].
    + subst b. apply mem_In in E. contradiction.
    + apply (IH acc x Hx Hn).
  - rewrite (addn_new acc b E). pose proof (fold_addn_length l (acc ++ [b])) as H1.
    rewrite app_length in H1. simpl in H1. lia.
Qed.

Lemma fold_left_flat_map {A B C} (f : A -> C -> A) (h : B -> list C) (l : list B) : forall acc,
  fold_left (fun a x => fold_left f (h x) a) l acc = fold_left f (flat_map h l) acc.
Proof.
  induction l as [|x l IH]; intros acc; simpl; [reflexivity|].
  rewrite fold_left_app. apply IH.
Qed.

(* ------------------------------------------------------------------ *)
(* reach_step, reachable                                               *)
(* ------------------------------------------------------------------ *)
Definition succs (g : grammar) (seen : list str) : list str := flat_map (fun A => nts_of (alts g A)) seen.

Lemma reach_step_eq g seen : reach_step g seen = fold_left addn (succs g seen) seen.
Proof. unfold reach_step, succs. apply (fold_left_flat_map addn (fun A => nts_of (alts g A)) seen seen). Qed.

Definition closed_set (g : grammar) (S : list str) : Prop :=
  forall A B, In A S -> In B (nts_of (alts g A)) -> In B S.

Lemma succs_In g seen B : In B (succs g seen) <-> exists A, In A seen /\ In B (nts_of (alts g A)).
Proof. unfold succs. apply in_flat_map. Qed.

Lemma closed_incl g S : closed_set g S <-> incl (succs g S) S.
Proof.
  split.
  - intros H B HB. apply succs_In in HB. destruct HB as (A & HA & HB). exact (H A B HA HB).
  - intros H A B HA HB. apply H. apply succs_In. exists A. split; assumption.
Qed.

Lemma reach_step_mono g S x : In x S -> In x (reach_step g S).
Proof. intro H. rewrite reach_step_eq. apply fold_addn_In. left. exact H. Qed.

Lemma reach_step_fix g S : closed_set g S -> reach_step g S = S.
Proof. intro H. rewrite reach_step_eq. apply fold_addn_fix. apply closed_incl. exact H. Qed.

Lemma inclb_dec (l S : list str) : incl l S \/ exists x, In x l /\ ~ In x S.
Proof.
  induction l as [|a l IH].
  - left. intros x [].
  - destruct (mem a S) eqn:E.
    + destruct IH as [IH|(x & Hx & Hn)].
      * left. intros x [Hx|Hx]; [subst; apply mem_In; exact E | apply IH; exact Hx].
      * right. exists x. split; [right; exact Hx | exact Hn].
    + right. exists a. split; [left; reflexivity|]. intro H. apply mem_In in H. rewrite H in E. discriminate.
Qed.

Lemma iter_fixed {A} (f : A -> A) x n : f x = x -> iter n f x = x.
Proof. intro H. induction n as [|n IH]; simpl; [reflexivity | rewrite H; exact IH]. Qed.

Lemma iter_mono g n : forall S x, In x S -> In x (iter n (reach_step g) S).
Proof. induction n as [|n IH]; intros S x H; simpl; [exact H|]. apply IH. apply reach_step_mono. exact H. Qed.

(* every element that reach_step adds lies in the universe U *)
Lemma iter_closed g (U : list str) :
  (forall A B, In B (nts_of (alts g A)) -> In B U) ->
  forall k S, NoDup S -> incl S U -> length U < length S + k ->
  closed_set g (iter k (reach_step g) S).
Proof.
  intros HU k. induction k as [|k IH]; intros S Hnd Hin Hlen.
  - exfalso. pose proof (NoDup_incl_length Hnd Hin) as H. lia.
  - simpl. destruct (inclb_dec (succs g S) S) as [Hc|(x & Hx & Hn)].
    + apply closed_incl in Hc. rewrite (reach_step_fix g S Hc). rewrite iter_fixed; [exact Hc|].
      apply reach_step_fix. exact Hc.
    + apply IH.
      * rewrite reach_step_eq. apply fold_addn_NoDup. exact Hnd.
      * intros y Hy. rewrite reach_step_eq in Hy. apply fold_addn_In in Hy. destruct Hy as [Hy|Hy]; [apply Hin; exact Hy|].
        apply succs_In in Hy. destruct Hy as (A & _ & Hy). exact (HU A y Hy).
      * rewrite reach_step_eq. pose proof (fold_addn_grows (succs g S) S x Hx Hn) as H. lia.
Qed.

Lemma nts_of_In al B : In B (nts_of al) <-> is_nt B = true /\ exists a, In a al /\ In B a.
Proof.
  unfold nts_of. rewrite filter_In, in_concat. split.
  - intros ((a & Ha & HB) & Hn). split; [exact Hn|]. exists a. split; assumption.
  - intros (Hn & a & Ha & HB). split; [exists a; split; assumption | exact Hn].
Qed.

Lemma defined_In_keys (g : grammar) A : defined g A = true <-> In A (map fst g).
Proof.
  unfold defined. rewrite existsb_exists, in_map_iff. split.
  - intros (r & Hr & E). apply str_eqb_eq in E. exists r. split; [symmetry; exact E | exact Hr].
  - intros (r & E & Hr). exists r. split; [exact Hr|]. apply str_eqb_eq. symmetry. exact E.
Qed.

Theorem reachable_closed g A : good_grammar g -> closed_set g (reachable g A).
Proof.
  intros (G1 & G2 & G3). unfold reachable.
  apply (iter_closed g (A :: map fst g)).
  - intros X B HB. apply nts_of_In in HB. destruct HB as (Hn & a & Ha & HB).
    right. apply defined_In_keys. destruct (G2 X a B Ha HB) as (_ & E). rewrite <- E. exact Hn.
  - constructor; [intros [] | constructor].
  - intros x [Hx|[]]. left. exact Hx.
  - simpl. rewrite map_length. lia.
Qed.

Lemma reachable_self g A : In A (reachable g A).
Proof. unfold reachable. apply iter_mono. left. reflexivity. Qed.

(* ------------------------------------------------------------------ *)
(* filtering rules by key                                              *)
(* ------------------------------------------------------------------ *)
Lemma alts_filter (f : str -> bool) (g : grammar) A :
  alts (filter (fun r => f (fst r)) g) A = if f A then alts g A else [].
Proof.
  induction g as [|[B bl] g IH]; simpl; [destruct (f A); reflexivity|].
  destruct (f B) eqn:EB; simpl.
  - destruct (str_eqb A B) eqn:E.
    + apply str_eqb_eq in E. subst B. rewrite EB. reflexivity.
    + exact IH.
  - destruct (str_eqb A B) eqn:E.
    + apply str_eqb_eq in E. subst B. rewrite EB in IH |- *. exact IH.
    + exact IH.
Qed.

Lemma defined_filter (f : str -> bool) (g : grammar) A :
  defined (filter (fun r => f (fst r)) g) A = f A && defined g A.
Proof.
  unfold defined. induction g as [|[B bl] g IH]; simpl; [rewrite andb_false_r; reflexivity|].
  destruct (f B) eqn:EB; simpl.
  - rewrite IH. destruct (str_eqb A B) eqn:E; simpl.
    + apply str_eqb_eq in E. subst B. rewrite EB. reflexivity.
    + reflexivity.
  - rewrite IH. destruct (str_eqb A B) eqn:E; simpl; [|reflexivity].
    apply str_eqb_eq in E. subst B. rewrite EB. reflexivity.
Qed.

Lemma NoDup_keys_filter (p : str * list alt -> bool) (g : grammar) :
  NoDup (map fst g) -> NoDup (map fst (filter p g)).
Proof.
  induction g as [|r g IH]; simpl; intro H; [constructor|].
  inversion H as [|x l Hx Hnd]; subst.
  destruct (p r); simpl; [|apply IH; exact Hnd].
  constructor; [|apply IH; exact Hnd].
  intro Hin. apply Hx. apply in_map_iff in Hin. destruct Hin as (r' & E & Hr'). apply filter_In in Hr'.
  apply in_map_iff. exists r'. split; [exact E | apply Hr'].
Qed.

Lemma set_key_keys_defined g K al : defined g K = true -> map fst (set_key g K al) = map fst g.
Proof.
  unfold defined. induction g as [|[B bl] g IH]; simpl; [discriminate|].
  destruct (str_eqb K B) eqn:E; simpl; [reflexivity|]. intro H. rewrite (IH H). reflexivity.
Qed.

Lemma NoDup_keys_set_key g K al : NoDup (map fst g) -> NoDup (map fst (set_key g K al)).
Proof.
  intro H. destruct (defined g K) eqn:E.
  - rewrite set_key_keys_defined by exact E. exact H.
  - rewrite set_key_keys by exact E. apply NoDup_snoc; [exact H | apply defined_false_notin; exact E].
Qed.

Lemma is_nt_START : is_nt START = true.
Proof. reflexivity. Qed.

(* ------------------------------------------------------------------ *)
(* the specialised grammar                                             *)
(* ------------------------------------------------------------------ *)
Section Spec.
  Variable g : grammar.
  Variable nt : str.
  Hypothesis Hgood : good_grammar g.
  Hypothesis Hnt : defined g nt = true.
  Let G0 := set_key g START [[nt]].
  Let R := reachable G0 START.
  Let G' := spec_grammar g nt.

  Lemma is_nt_nt : is_nt nt = true.
  Proof. destruct Hgood as (G1 & _). apply G1. exact Hnt. Qed.

  Lemma alts_G0_START : alts G0 START = [[nt]].
  Proof. apply alts_set_key_same. Qed.

  Lemma alts_G0_other A : A <> START -> alts G0 A = alts g A.
  Proof. intro H. apply alts_set_key. apply str_eqb_neq. exact H. Qed.

  Lemma defined_G0 A : defined G0 A = defined g A || str_eqb A START.
  Proof. apply defined_set_key. Qed.

  Lemma good_G0 : good_grammar G0.
  Proof.
    destruct Hgood as (G1 & G2 & G3). split; [|split].
    - intros A H. rewrite defined_G0 in H. apply orb_true_iff in H. destruct H as [H|H]; [apply G1; exact H|].
      apply str_eqb_eq in H. subst A. reflexivity.
    - intros A al s Hal Hs. destruct (str_eqb A START) eqn:E.
      + apply str_eqb_eq in E. subst A. rewrite alts_G0_START in Hal. destruct Hal as [Hal|[]]. subst al.
        destruct Hs as [Hs|[]]. subst s. split.
        * intro E. pose proof is_nt_nt as H. rewrite E in H. discriminate.
        * rewrite is_nt_nt, defined_G0, Hnt. reflexivity.
      + apply str_eqb_neq in E. rewrite (alts_G0_other A E) in Hal. destruct (G2 A al s Hal Hs) as (Hne & Hd).
        split; [exact Hne|]. rewrite defined_G0, Hd. destruct (str_eqb s START) eqn:Es; [|rewrite orb_false_r; reflexivity].
        apply str_eqb_eq in Es. subst s. rewrite orb_true_r. rewrite <- Hd. reflexivity.
    - intros A al Hal. destruct (str_eqb A START) eqn:E.
      + apply str_eqb_eq in E. subst A. rewrite alts_G0_START in Hal. destruct Hal as [Hal|[]]. subst al. reflexivity.
      + apply str_eqb_neq in E. rewrite (alts_G0_other A E) in Hal. exact (G3 A al Hal).
  Qed.

  Lemma R_closed : closed_set G0 R.
  Proof. apply reachable_closed. exact good_G0. Qed.

  Lemma R_START : In START R.
  Proof. apply reachable_self. Qed.

  Lemma R_nt : In nt R.
  Proof.
    apply (R_closed START nt R_START). apply nts_of_In. split; [exact is_nt_nt|].
    exists [nt]. rewrite alts_G0_START. split; left; reflexivity.
  Qed.

  Lemma alts_G' A : alts G' A = if mem A R then alts G0 A else [].
  Proof. unfold G', spec_grammar, delete_unreachable. apply (alts_filter (fun A => mem A R)). Qed.

  Lemma defined_G' A : defined G' A = mem A R && defined G0 A.
  Proof. unfold G', spec_grammar, delete_unreachable. apply (defined_filter (fun A => mem A R)). Qed.

  Lemma alts_G'_sub A al : In al (alts G' A) -> In A R /\ In al (alts G0 A).
  Proof.
    rewrite alts_G'. destruct (mem A R) eqn:E; [|intros []]. intro H. split; [apply mem_In; exact E | exact H].
  Qed.

  Lemma alts_G'_START : alts G' START = [[nt]].
  Proof.
    rewrite alts_G'. assert (H : mem START R = true) by (apply mem_In; exact R_START). rewrite H. exact alts_G0_START.
  Qed.

  Theorem spec_good : good_grammar G'.
  Proof.
    destruct good_G0 as (G1 & G2 & G3). split; [|split].
    - intros A H. rewrite defined_G' in H. apply andb_true_iff in H. apply G1. apply H.
    - intros A al s Hal Hs. apply alts_G'_sub in Hal. destruct Hal as (HA & Hal).
      destruct (G2 A al s Hal Hs) as (Hne & Hd). split; [exact Hne|].
      rewrite defined_G', <- Hd. destruct (is_nt s) eqn:En; [|rewrite andb_false_r; reflexivity].
      assert (Hs' : In s R).
      { apply (R_closed A s HA). apply nts_of_In. split; [exact En|]. exists al. split; assumption. }
      apply mem_In in Hs'. rewrite Hs'. reflexivity.
    - intros A al Hal. apply alts_G'_sub in Hal. exact (G3 A al (proj2 Hal)).
  Qed.

  Theorem spec_NoDup : NoDup (map fst g) -> NoDup (map fst G').
  Proof.
    intro H. unfold G', spec_grammar, delete_unreachable. apply NoDup_keys_filter. apply NoDup_keys_set_key. exact H.
  Qed.

  Theorem spec_no_WRAP : defined g WRAP = false -> defined G' WRAP = false.
  Proof.
    intro H. rewrite defined_G', defined_G0, H. simpl. apply andb_false_r.
  Qed.

  Theorem spec_defined_START : defined G' START = true.
  Proof.
    rewrite defined_G', defined_G0, str_eqb_refl, orb_true_r.
    assert (H : mem START R = true) by (apply mem_In; exact R_START). rewrite H. reflexivity.
  Qed.

  Theorem spec_single_start : K_multistart G' START = false.
  Proof. unfold K_multistart. rewrite alts_G'_START. reflexivity. Qed.

  Lemma cgram_G' : cgram G' START = sct G'.
  Proof. unfold cgram. rewrite alts_G'_START. reflexivity. Qed.

  (* the pinned parser's guard: <start> on no right-hand side of g, and nt is not <start> itself *)
  Theorem spec_no_recstart : occurs_rhs g START = false -> nt <> START -> K_recstart G' START START = false.
  Proof.
    intros Ho Hne. unfold K_recstart. rewrite cgram_G'.
    destruct (occurs_rhs (sct G') START) eqn:E; [exfalso | reflexivity].
    unfold occurs_rhs in E. apply existsb_exists in E. destruct E as (r & Hr & E).
    apply existsb_exists in E. destruct E as (al & Hal & E). apply mem_In in E.
    unfold sct in Hr. apply in_map_iff in Hr. destruct Hr as (r0 & Er & Hr0). subst r. simpl in Hal.
    apply in_map_iff in Hal. destruct Hal as (al0 & Eal & Hal0). subst al.
    unfold sct_alt in E. apply in_flat_map in E. destruct E as (tok & Htok & E).
    assert (Et : tok = START).
    { unfold sct_tok in E. destruct (defined G' tok).
      - destruct E as [E|[]]. exact E.
      - apply in_map_iff in E. destruct E as (c & Ec & _). unfold single in Ec. discriminate. }
    subst tok.
    unfold G', spec_grammar, delete_unreachable in Hr0. apply filter_In in Hr0. destruct Hr0 as (Hr0 & _).
    apply In_set_key in Hr0. destruct Hr0 as [Hr0|Hr0].
    - assert (Ht : occurs_rhs g START = true).
      { unfold occurs_rhs. apply existsb_exists. exists r0. split; [exact Hr0|].
        apply existsb_exists. exists al0. split; [exact Hal0 | apply mem_In; exact Htok]. }
      rewrite Ht in Ho. discriminate.
    - subst r0. simpl in Hal0. destruct Hal0 as [Hal0|[]]. subst al0. destruct Htok as [Htok|[]]. exact (Hne Htok).
  Qed.

  (* ---- trees and derivations that do not mention <start> are trees / derivations of g ---- *)
  Section NoStartOnRhs.
    Hypothesis Ho : occurs_rhs g START = false.
    Hypothesis Hne : nt <> START.

    Lemma rhs_no_START A al : In al (alts g A) -> ~ In START al.
    Proof.
      intros Hal Hs. rewrite (occurs_rhs_intro g A al START Hal Hs) in Ho. discriminate.
    Qed.

    Lemma alts_G'_g A al : A <> START -> In al (alts G' A) -> In al (alts g A).
    Proof. intros HA H. apply alts_G'_sub in H. rewrite (alts_G0_other A HA) in H. apply H. Qed.

    Lemma alts_g_G' A al : A <> START -> In A R -> In al (alts g A) -> In al (alts G' A).
    Proof.
      intros HA HR H. rewrite alts_G'. apply mem_In in HR. rewrite HR. rewrite (alts_G0_other A HA). exact H.
    Qed.

    Theorem spec_tree_transfer : forall t, lbl t <> START -> wf_tree G' t -> wf_tree g t.
    Proof.
      intro t. induction t as [l i o ks IH] using tree_ind'. intros Hl Hwf. cbn [lbl] in Hl.
      inversion Hwf as [A i0 HA Hd | w0 i0 Hw0 | A i0 ks0 HA Hks Hal Hall | A i0 HA Hal | A i0 j HA Hal]; subst.
      - apply wf_open; [exact HA|]. rewrite defined_G', defined_G0 in Hd.
        apply andb_true_iff in Hd. destruct Hd as (_ & Hd). apply orb_true_iff in Hd. destruct Hd as [Hd|Hd]; [exact Hd|].
        apply str_eqb_eq in Hd. contradiction.
      - apply wf_term. exact Hw0.
      - pose proof (alts_G'_g l (map lbl ks) Hl Hal) as Hal'.
        apply wf_inner; [exact HA | exact Hks | exact Hal'|].
        rewrite Forall_forall in *. intros k Hk. apply (IH k Hk); [|apply Hall; exact Hk].
        intro E. apply (rhs_no_START l (map lbl ks) Hal'). rewrite <- E. apply in_map. exact Hk.
      - apply wf_eps_parser; [exact HA|]. apply alts_G'_g; assumption.
      - apply wf_eps_fuzzer; [exact HA|]. apply alts_G'_g; assumption.
    Qed.

    Lemma spec_derives_down : forall syms u, derives G' syms u -> ~ In START syms -> derives g syms u.
    Proof.
      intros syms u H. induction H as [| w0 rest u0 Hw0 Hr IHr | A al rest u0 v HA Hal Hd IHd Hr IHr]; intro Hn.
      - constructor.
      - apply d_t; [exact Hw0|]. apply IHr. intro H. apply Hn. right. exact H.
      - assert (HAs : A <> START) by (intro E; apply Hn; left; exact E).
        pose proof (alts_G'_g A al HAs Hal) as Hal'.
        apply (d_nt g A al); [exact HA | exact Hal' | |].
        + apply IHd. exact (rhs_no_START A al Hal').
        + apply IHr. intro H. apply Hn. right. exact H.
    Qed.

    Lemma spec_derives_up : forall syms u, derives g syms u ->
      (forall s, In s syms -> is_nt s = true -> In s R /\ s <> START) -> derives G' syms u.
    Proof.
      intros syms u H. induction H as [| w0 rest u0 Hw0 Hr IHr | A al rest u0 v HA Hal Hd IHd Hr IHr]; intro Hs.
      - constructor.
      - apply d_t; [exact Hw0|]. apply IHr. intros s Hin. apply Hs. right. exact Hin.
      - destruct (Hs A (or_introl eq_refl) HA) as (HAR & HAs).
        apply (d_nt G' A al); [exact HA | apply alts_g_G'; assumption | |].
        + apply IHd. intros s Hin Hsn. split.
          * apply (R_closed A s HAR). apply nts_of_In. split; [exact Hsn|]. exists al.
            rewrite (alts_G0_other A HAs). split; assumption.
          * intro E. subst s. exact (rhs_no_START A al Hal Hin).
        + apply IHr. intros s Hin. apply Hs. right. exact Hin.
    Qed.

    Theorem spec_language : forall w, L G' START w <-> L g nt w.
    Proof.
      intro w. unfold L. split.
      - intro H. inversion H as [| w0 rest u0 Hw0 Hr | A al rest u0 v HA Hal Hd Hr]; subst.
        + rewrite is_nt_START in Hw0. discriminate.
        + rewrite alts_G'_START in Hal. destruct Hal as [Hal|[]]. subst al.
          apply derives_nil_inv in Hr. subst v. rewrite app_nil_r.
          apply spec_derives_down; [exact Hd|]. intros [E|[]]. exact (Hne E).
      - intro H. rewrite <- (app_nil_r w). apply (d_nt G' START [nt]); [reflexivity | rewrite alts_G'_START; left; reflexivity | | constructor].
        apply spec_derives_up; [exact H|]. intros s [E|[]] _. subst s. split; [exact R_nt | exact Hne].
    Qed.
  End NoStartOnRhs.

  (* ---- shape of a valid closed tree of G' rooted in <start> ---- *)
  Theorem spec_root_shape : forall t, wf_tree G' t -> lbl t = START -> is_openT t = false ->
    exists k i, t = Node START i false [k] /\ lbl k = nt /\ wf_tree G' k.
  Proof.
    intros t Hwf Hl Hc.
    inversion Hwf as [A i0 HA Hd | w0 i0 Hw0 | A i0 ks0 HA Hks Hal Hall | A i0 HA Hal | A i0 j HA Hal]; subst;
      cbn [lbl] in Hl; subst.
    - discriminate Hc.
    - rewrite is_nt_START in Hw0. discriminate.
    - rewrite alts_G'_START in Hal. destruct Hal as [Hal|[]].
      destruct ks0 as [|k [|k' ks]]; try discriminate Hal. inversion Hal as [Hk].
      exists k, i0. split; [reflexivity|]. split; [reflexivity|]. inversion Hall; assumption.
    - rewrite alts_G'_START in Hal. destruct Hal as [Hal|[]]. discriminate.
    - rewrite alts_G'_START in Hal. destruct Hal as [Hal|[]]. discriminate.
  Qed.
End Spec.

(* nt = <start>: mk_parser overwrites the start rule with  <start> ::= <start> ; the language is empty *)
Theorem spec_start_language_empty g w : ~ L (spec_grammar g START) START w.
Proof.
  assert (Hal : forall al, In al (alts (spec_grammar g START) START) -> al = [START]).
  { intros al H. unfold spec_grammar, delete_unreachable in H.
    rewrite (alts_filter (fun A => mem A (reachable (set_key g START [[START]]) START))) in H.
    destruct (mem START (reachable (set_key g START [[START]]) START)); [|destruct H].
    rewrite alts_set_key_same in H. destruct H as [H|[]]. symmetry. exact H. }
  assert (Hno : forall syms u, derives (spec_grammar g START) syms u -> ~ In START syms).
  { intros syms u H. induction H as [| w0 rest u0 Hw0 Hr IHr | A al rest u0 v HA Hin Hd IHd Hr IHr].
    - intros [].
    - intros [E|Hn]; [subst w0; rewrite is_nt_START in Hw0; discriminate | exact (IHr Hn)].
    - intros [E|Hn]; [|exact (IHr Hn)]. subst A. rewrite (Hal al Hin) in IHd. apply IHd. left. reflexivity. }
  intro H. apply (Hno [START] w H). left. reflexivity.
Qed.
