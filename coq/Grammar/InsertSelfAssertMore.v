(* C13 — proof extension (stretch): assertion-freedom for methods = SELF_EMBEDDING.

   na r := r <> Raise AssertErr.  Under closed_g, wf_tree host / ins and the oracle hypothesis
   pb_ok (chains of paths_between(A, B): start with A, end with B, >= 2 symbols, nonterminals)
   no assertion of insert_tree / compute_self_embeddings / insert_trees / connect_trees /
   path_to_tree / add_to_result can fire for methods = SELF_EMBEDDING.
   (Other exceptions of the model — IndexErr, StopIter — are not excluded here.) *)
From ISLA Require Import Grammar GrammarFacts PathFacts TreeFacts Insert InsertFacts
     InsertDirectMore InsertTrackMore InsertSelfMore InsertCtxMore.
From Coq Require Import List NArith Bool Arith Lia.
Import ListNotations.

Definition na {A} (r : res A) : Prop := r <> Raise AssertErr.

Lemma na_ok {A} (x : A) : na (Ok x).
Proof. discriminate. Qed.

Lemma na_bind {A B} (r : res A) (f : A -> res B) :
  na r -> (forall x, r = Ok x -> na (f x)) -> na (bind r f).
Proof.
  destruct r as [x|e]; simpl; intros H Hf; [apply Hf; reflexivity|].
  intro E. apply H. inversion E; subst. reflexivity.
Qed.

Lemma na_mapM {A B} (f : A -> res B) l : (forall x, In x l -> na (f x)) -> na (mapM f l).
Proof.
  induction l as [|x l IH]; intro H; simpl; [apply na_ok|].
  apply na_bind; [apply H; left; reflexivity|]. intros y _.
  apply na_bind; [apply IH; intros z Hz; apply H; right; assumption|]. intros ys _. apply na_ok.
Qed.

Lemma na_concatM {A B} (f : A -> res (list B)) l : (forall x, In x l -> na (f x)) -> na (concatM f l).
Proof. intro H. unfold concatM. apply na_bind; [apply na_mapM; assumption|]. intros; apply na_ok. Qed.

(* ---------- oracle hypothesis ---------- *)
Definition pb_ok (pb : graph_paths) : Prop :=
  forall A B ch, In ch (pb A B) ->
    exists rest, ch = A :: rest /\ rest <> [] /\ all_nt ch /\ last rest A = B.

Lemma pb_ok_start pb : pb_ok pb -> pb_start pb.
Proof. intros H A B ch Hin. destruct (H A B ch Hin) as (rest & E & _). eauto. Qed.

(* ---------- replace_at keeps validity for any same-label valid replacement ---------- *)
Lemma replace_at_wf_gen g p : forall t r t' old,
  wf_tree g t -> replace_at t p r = Some t' -> subtree t p = Some old ->
  lbl r = lbl old -> wf_tree g r -> wf_tree g t'.
Proof.
  induction p as [|i p IH]; intros t r t' old Hwf H Hs El Hr; simpl in *.
  - congruence.
  - destruct (nth_error (kids t) i) as [c|] eqn:Hc; [|discriminate].
    destruct (replace_at c p r) as [c'|] eqn:Hrep; [|discriminate]. inversion H; subst.
    assert (Hlc : lbl c' = lbl c) by (eapply replace_at_root; eassumption).
    inversion Hwf as [A i' HA HD | w i' Hw | A i' ks' HA Hne Hin Hall | A i' HA Hin | A i' j HA Hin];
      subst; simpl in *.
    + destruct i; discriminate.
    + destruct i; discriminate.
    + apply wf_inner; try assumption.
      * eapply set_nth_nonempty; eassumption.
      * rewrite (map_set_nth lbl _ _ _ _ Hc Hlc). assumption.
      * apply Forall_set_nth; [assumption|].
        apply (IH c r c' old); try assumption. rewrite Forall_forall in Hall. apply Hall.
        eapply nth_error_In; eassumption.
    + destruct i; discriminate.
    + destruct i as [|[|i]]; simpl in Hc; try discriminate. inversion Hc; subst.
      destruct p as [|k p]; simpl in Hs.
      * inversion Hs; subst. simpl in Hrep. inversion Hrep; subst. simpl in El.
        destruct c' as [l' i0 o0 ks0]. simpl in El. subst l'.
        inversion Hr as [A0 i1 HA0 HD0 | w i1 Hw | A0 i1 ks1 HA0 Hne0 Hin0 Hall0 | A0 i1 HA0 Hin0 | A0 i1 j1 HA0 Hin0];
          subst; try (rewrite is_nt_nil in *; discriminate).
        simpl. apply wf_eps_fuzzer; assumption.
      * destruct k; discriminate.
Qed.

(* ---------- path_to_tree: roots are closed, results exist ---------- *)
Lemma opn_ptt_raw g : forall rest A t, rest <> [] -> In t (ptt_raw g A rest) -> opn (mlo t) = false.
Proof.
  destruct rest as [|B rest]; intros A t Hne Hin; [contradiction|]. simpl in Hin.
  apply in_flat_map in Hin as (a & _ & Hin). apply in_flat_map in Hin as (i & Hi & Hin).
  apply in_map_iff in Hin as (sub & <- & _).
  apply positions_from_nth in Hi as (j & -> & Hj).
  rewrite (mlo_node A 0 _ (ptt_kids_nonempty a (0 + j) sub B Hj)). reflexivity.
Qed.

Lemma path_to_tree_open g ch cts ct : path_to_tree g ch = Ok cts -> In ct cts -> opn ct = false.
Proof.
  destruct ch as [|A [|B rest]]; unfold path_to_tree; try discriminate. intros H Hin. inversion H; subst.
  apply in_map_iff in Hin as (t0 & <- & Hin). apply (opn_ptt_raw g (B :: rest) A t0); [discriminate | exact Hin].
Qed.

Lemma path_to_tree_na g pb A B ch : pb_ok pb -> In ch (pb A B) -> exists cts, path_to_tree g ch = Ok cts.
Proof.
  intros Hpb Hin. destruct (Hpb _ _ _ Hin) as (rest & -> & Hne & _). destruct rest as [|C rest]; [contradiction|].
  simpl. eauto.
Qed.

(* ---------- connect_trees ---------- *)
Lemma connect_one_na g pb add parent ip n ch cts ct lp :
  closed_g g -> pb_ok pb -> wf_tree g parent -> wf_tree g add ->
  subtree parent ip = Some n -> is_nt (lbl n) = true ->
  In ch (pb (lbl n) (lbl add)) -> path_to_tree g ch = Ok cts -> In ct cts ->
  In lp (open_leaves_lbl ct (lbl add)) ->
  na (connect_one g add parent ip ct lp).
Proof.
  intros Hc Hpb Hp Ha Hn Hnt Hch Hcts Hct Hlp.
  destruct (Hpb _ _ _ Hch) as (rest & E & Hne & Hallnt & _).
  destruct (path_to_tree_ok g ch cts ct Hc Hallnt Hcts Hct) as (A & rest' & E' & _ & Wct & Lct & _).
  assert (Elbl : lbl ct = lbl n) by congruence.
  destruct (open_leaves_lbl_spec _ _ _ Hlp) as (leaf & Hleaf & Oleaf & Lleaf).
  pose proof (wf_subtree g lp ct leaf Wct Hleaf) as Wleaf.
  destruct (wf_open_kids g leaf Wleaf Oleaf) as [Kleaf NTleaf].
  assert (Hid : tid leaf = 0%N).
  { apply (nodesin_path_to_tree (fun i _ => i = 0%N) ltac:(intro; reflexivity) g ch cts ct Hcts Hct lp leaf Hleaf). }
  assert (Eleaf : leaf = Node (lbl add) 0 true []).
  { destruct leaf as [l i o ks]. simpl in *. congruence. }
  assert (Hlpne : lp <> []).
  { intros ->. simpl in Hleaf. injection Hleaf as Ect. rewrite <- Ect in Oleaf.
    rewrite (path_to_tree_open g ch cts ct Hcts Hct) in Oleaf. discriminate. }
  rewrite Eleaf in Hleaf. rewrite Lleaf in NTleaf.
  destruct (connect_one_ok g add parent ip ct lp n Hp Ha Wct Hn Hnt Elbl Hlpne Hleaf NTleaf) as (new & Hnew & _).
  rewrite Hnew. apply na_ok.
Qed.

Lemma connect_trees_na g pb add parent ipts :
  closed_g g -> pb_ok pb -> wf_tree g parent -> wf_tree g add ->
  (forall ip n, In (ip, n) ipts -> subtree parent ip = Some n) ->
  na (connect_trees g pb add parent ipts).
Proof.
  intros Hc Hpb Hp Ha Hipts. unfold connect_trees. apply na_concatM. intros [ip n] Hin. simpl.
  destruct (is_nt (lbl n)) eqn:Hnt; [|apply na_ok].
  apply na_concatM. intros ch Hch.
  destruct (path_to_tree_na g pb _ _ ch Hpb Hch) as (cts & Hcts). rewrite Hcts. simpl.
  apply na_concatM. intros ct Hct. apply na_mapM. intros lp Hlp.
  eapply connect_one_na; eauto.
Qed.

(* ---------- insert_item / insert_items / insert_trees ---------- *)
Lemma insert_item_na g pb reach t ip rt :
  closed_g g -> pb_ok pb -> wf_tree g rt -> wf_tree g t ->
  na (insert_item g pb reach t ip rt).
Proof.
  intros Hc Hpb Hrt Ht. unfold insert_item.
  destruct (subtree rt ip) as [ipt|] eqn:Hipt; [|discriminate].
  destruct (str_eqb (lbl ipt) (lbl t)) eqn:El.
  - apply str_eqb_eq in El. destruct (replace_at_some ip rt t ipt Hipt) as (new & Hnew).
    unfold replace_path. rewrite Hnew. simpl.
    assert (Wnew : wf_tree g new) by exact (replace_at_wf_gen g ip rt t new ipt Hrt Hnew Hipt (eq_sym El) Ht).
    rewrite (proj2 (wf_treeb_spec g new) Wnew). simpl.
    assert (Hk : ids_kept t new = true).
    { apply ids_kept_spec. intros p n Hp. exists (ip ++ p), n. split; [|reflexivity].
      rewrite (replace_at_below ip rt t new p Hnew). assumption. }
    rewrite Hk. apply na_ok.
  - destruct (filter (fun s => is_nt (lbl s)) (cwamop_t t)) as [|s spc] eqn:Espc; [discriminate|].
    pose proof (spc_head t s spc (wf_simple_root g t Ht) Espc) as ->.
    apply connect_trees_na; try assumption.
    intros ip' n [E|Hhu].
    + inversion E; subst. assumption.
    + apply (higher_up_spec _ _ _ _ _ _ Hhu).
Qed.

Lemma insert_item_wf g pb reach t ip rt news new :
  wf_tree g t -> insert_item g pb reach t ip rt = Ok news -> In new news -> wf_tree g new.
Proof.
  intros Ht H Hin.
  destruct (insert_item_inv _ _ _ _ _ _ _ _ (wf_simple_root g t Ht) H Hin)
    as (ipt & Hipt & [(_ & _ & Hw)|(ip' & n & ch & cts & ct & lp & _ & _ & _ & _ & _ & _ & Hone)]); [assumption|].
  destruct (connect_one_inv _ _ _ _ _ _ _ Hone) as (orig & inst & _ & _ & _ & Hw). assumption.
Qed.

Lemma insert_items_wf g pb reach : forall items rts rs,
  Forall (fun tp => wf_tree g (fst tp)) items ->
  insert_items g pb reach items rts = Ok rs -> Forall (wf_tree g) rts -> Forall (wf_tree g) rs.
Proof.
  induction items as [|[t ip] items IH]; intros rts rs Hit H Hrts; simpl in H.
  - inversion H; subst. assumption.
  - apply bind_ok in H as (rts1 & H1 & H). inversion Hit as [|? ? Ht Hit']; subst.
    apply (IH rts1 rs Hit' H). apply Forall_forall. intros new Hnew.
    destruct (concatM_In _ _ _ _ H1 Hnew) as (rt & zs & _ & Hf & Hz).
    eapply insert_item_wf; eassumption.
Qed.

Lemma insert_items_na g pb reach :
  closed_g g -> pb_ok pb -> forall items rts,
  Forall (fun tp => wf_tree g (fst tp)) items -> Forall (wf_tree g) rts ->
  na (insert_items g pb reach items rts).
Proof.
  intros Hc Hpb. induction items as [|[t ip] items IH]; intros rts Hit Hrts; simpl; [apply na_ok|].
  inversion Hit as [|? ? Ht Hit']; subst. simpl in Ht. apply na_bind.
  - apply na_concatM. intros rt Hrt. apply in_rev in Hrt. rewrite Forall_forall in Hrts.
    apply insert_item_na; auto.
  - intros rts1 H1. apply IH; [assumption|]. apply Forall_forall. intros new Hnew.
    destruct (concatM_In _ _ _ _ H1 Hnew) as (rt & zs & _ & Hf & Hz).
    eapply insert_item_wf; eassumption.
Qed.

Lemma combos_loop_na g pb reach maxn into :
  closed_g g -> pb_ok pb -> wf_tree g into -> forall cs acc,
  (forall c, In c cs -> Forall (fun tp => wf_tree g (fst tp)) c) ->
  na (combos_loop g pb reach maxn into cs acc).
Proof.
  intros Hc Hpb Hinto. induction cs as [|c cs IH]; intros acc Hcs; simpl; [apply na_ok|].
  destruct (Nat.leb maxn (length acc)); [apply na_ok|]. apply na_bind.
  - apply insert_items_na; auto. apply Hcs. left. reflexivity.
  - intros rs _. apply IH. intros c' Hc'. apply Hcs. right. assumption.
Qed.

Lemma insert_trees_na g pb reach maxn ts into :
  closed_g g -> pb_ok pb -> wf_tree g into -> Forall (wf_tree g) ts ->
  na (insert_trees g pb reach maxn ts into).
Proof.
  intros Hc Hpb Hinto Hts. unfold insert_trees. apply combos_loop_na; try assumption.
  intros c Hcin. apply filter_In in Hcin as [Hcin _]. apply in_map_iff in Hcin as (ps & <- & _).
  apply Forall_forall. intros [t0 p0] Htp. apply in_combine_l in Htp.
  apply in_map_iff in Htp as ([t1 l1] & E & Hpp). simpl in E. subst t1.
  apply filter_In in Hpp as [Hpp _]. apply in_map_iff in Hpp as (t2 & E2 & Ht2). inversion E2; subst.
  rewrite Forall_forall in Hts. simpl. apply Hts. assumption.
Qed.

Lemma insert_trees_wf g pb reach maxn ts into rs t :
  wf_tree g into -> Forall (wf_tree g) ts ->
  insert_trees g pb reach maxn ts into = Ok rs -> In t rs -> wf_tree g t.
Proof.
  intros Hinto Hts H Hin.
  destruct (insert_trees_In _ _ _ _ _ _ _ _ H Hin) as (c & rs' & Hi & Ht & Hc).
  assert (HF : Forall (wf_tree g) rs').
  { eapply insert_items_wf; [|exact Hi|constructor; [assumption|constructor]].
    apply Forall_forall. intros tp Htp. rewrite Forall_forall in Hts. apply Hts. apply Hc. assumption. }
  rewrite Forall_forall in HF. apply HF. assumption.
Qed.

(* ---------- cur is always among the inserted trees, hence a subtree of every result ---------- *)
Lemma pips_cur_nonempty g pb reach cur ch cts set :
  closed_g g -> pb_ok pb -> In ch (pb (lbl cur) (lbl cur)) ->
  path_to_tree g ch = Ok cts -> In set cts -> pips reach set cur <> [].
Proof.
  intros Hc Hpb Hch Hcts Hset.
  destruct (Hpb _ _ _ Hch) as (rest & E & Hne & Hallnt & Hlast).
  destruct (path_to_tree_ok g ch cts set Hc Hallnt Hcts Hset) as (A & rest' & E' & _ & _ & _ & p & _ & Hp).
  assert (A = lbl cur /\ rest' = rest) as [-> ->] by (split; congruence).
  rewrite Hlast in Hp.
  assert (Hin : In p (pips reach set cur)).
  { unfold pips. apply in_map_iff. exists (p, Node (lbl cur) 0 true []). split; [reflexivity|].
    apply filter_In. split; [apply nodes_spec; assumption|]. simpl.
    unfold cwamop_t. destruct (cwamop_head (size cur) cur) as (r & ->). simpl.
    rewrite str_eqb_refl. reflexivity. }
  intro H0. rewrite H0 in Hin. contradiction.
Qed.

Lemma insert_trees2_has_first g pb reach maxn t1 t2 set rs it :
  simple_root t1 -> simple_root t2 -> pips reach set t1 <> [] ->
  insert_trees g pb reach maxn [t1; t2] set = Ok rs -> In it rs ->
  exists x, subtree it x = Some t1.
Proof.
  intros Hs1 Hs2 Hne H Hin.
  destruct (insert_trees2_In _ _ _ _ _ _ _ _ _ H Hin)
    as (c & rs' & Hi & Hit & [(p1 & ->)|[(p2 & -> & He)|(p1 & p2 & -> & Hp2 & Hnest)]]).
  - simpl in Hi. apply bind_ok in Hi as (rts1 & H1 & Hi). inversion Hi; subst rts1.
    destruct (concatM_In _ _ _ _ H1 Hit) as (rt & zs & _ & Hf & Hz).
    destruct (insert_item_place _ _ _ _ _ _ _ _ Hs1 Hf Hz) as (_ & _ & x & _ & _ & _ & Hx & _). eauto.
  - contradiction.
  - apply nested_false in Hnest as [Hn12 Hn21].
    destruct (two_items _ _ _ _ _ _ _ _ _ _ Hs1 Hs2 (pips_spec _ _ _ _ Hp2) Hn12 Hn21 Hi Hit)
      as (x1 & x2 & Hx1 & _). eauto.
Qed.

(* ---------- compute_self_embeddings ---------- *)
Lemma self_loop_na g maxn host cp cur :
  wf_tree g host -> subtree host cp = Some cur -> is_nt (lbl cur) = true ->
  forall insts acc,
  (forall it, In it insts -> wf_tree g it /\ lbl it = lbl cur /\ exists x, subtree it x = Some cur) ->
  na (self_loop g maxn host cp insts acc).
Proof.
  intros Hhost Hcur Hnt. induction insts as [|it insts IH]; intros acc H; simpl; [apply na_ok|].
  destruct (H it (or_introl eq_refl)) as (Wit & Lit & x & Hx).
  rewrite (proj2 (wf_treeb_spec g it) Wit). simpl.
  destruct (Nat.leb maxn (length acc)); [apply na_ok|]. rewrite Hcur.
  rewrite Lit, str_eqb_refl. simpl.
  destruct (replace_at_some cp host it cur Hcur) as (new & Hnew). unfold replace_path. rewrite Hnew. simpl.
  assert (Wnew : wf_tree g new) by exact (replace_at_wf g cp host it new cur Hhost Hnew Hcur Lit Hnt Wit).
  rewrite (proj2 (wf_treeb_spec g new) Wnew). simpl.
  assert (Hk : ids_kept host new = true).
  { apply ids_kept_spec. intros p n Hp. destruct (prefix_dec cp p) as [[p' ->]|Hnp].
    - rewrite subtree_app, Hcur in Hp. exists (cp ++ x ++ p'), n. split; [|reflexivity].
      rewrite (replace_at_below cp host it new _ Hnew), subtree_app, Hx. assumption.
    - destruct (replace_at_keeps_outside cp host it new p n Hnew Hnp Hp) as (m & Hm & E1 & _). eauto. }
  rewrite Hk. simpl. apply IH. intros it' Hit'. apply H. right. assumption.
Qed.

Lemma self_embeddings_na g pb reach maxn cp ins host :
  closed_g g -> pb_ok pb -> wf_tree g host -> wf_tree g ins ->
  na (self_embeddings g pb reach maxn cp ins host).
Proof.
  intros Hc Hpb Hhost Hins. unfold self_embeddings.
  destruct (subtree host cp) as [cur|] eqn:Hcur; [|discriminate].
  destruct (negb (is_nt (lbl cur)) || negb (reach (lbl cur) (lbl cur))) eqn:Hguard; [apply na_ok|].
  apply orb_false_iff in Hguard as [Hnt _]. apply negb_false_iff in Hnt.
  pose proof (wf_subtree g cp host cur Hhost Hcur) as Wcur.
  apply na_bind.
  { apply na_concatM. intros ch Hch. destruct (path_to_tree_na g pb _ _ ch Hpb Hch) as (cts & ->). apply na_ok. }
  intros sets Hsets.
  assert (Hset : forall set, In set sets -> wf_tree g set /\ lbl set = lbl cur /\ pips reach set cur <> []).
  { intros set Hin. destruct (concatM_In _ _ _ _ Hsets Hin) as (ch & cts & Hch & Hcts & Hct).
    destruct (Hpb _ _ _ Hch) as (rest & E & Hne & Hallnt & Hlast).
    destruct (path_to_tree_ok g ch cts set Hc Hallnt Hcts Hct) as (A & rest' & E' & _ & W & L & _).
    split; [assumption|]. split; [congruence|]. eapply pips_cur_nonempty; eassumption. }
  apply na_bind.
  { apply na_concatM. intros set Hin. destruct (Hset set Hin) as (W & _).
    apply insert_trees_na; auto. }
  intros insts Hinsts. apply (self_loop_na g maxn host cp cur Hhost Hcur Hnt).
  intros it Hit. destruct (concatM_In _ _ _ _ Hinsts Hit) as (set & zs & Hin & Hf & Hz).
  destruct (Hset set Hin) as (W & L & Hpne).
  assert (Hts : Forall (wf_tree g) [cur; ins]) by (constructor; [assumption | constructor; [assumption | constructor]]).
  split; [eapply insert_trees_wf; eassumption|]. split.
  - rewrite <- L.
    assert (Hz0 : zero_ok (fun (_ : N) (_ : str) => True)) by (intro; exact I).
    refine (proj2 (insert_trees_track (fun _ _ => True) g pb reach maxn [cur; ins] set zs it Hz0
                     (pb_ok_start pb Hpb) _ _ Hf Hz)).
    + constructor; [split; [eapply wf_simple_root; eassumption | intros p n _; exact I]|].
      constructor; [split; [eapply wf_simple_root; eassumption | intros p n _; exact I]|constructor].
    + intros p n _. exact I.
  - eapply insert_trees2_has_first; try eassumption; eapply wf_simple_root; eassumption.
Qed.

(* ---------- insert_tree, methods = SELF_EMBEDDING ---------- *)
Lemma add_all_na g host ins : forall new acc,
  (forall t, In t new -> wf_tree g t /\ ids_kept host t = true) -> na (add_all g host ins new acc).
Proof.
  induction new as [|t new IH]; intros acc H; simpl; [apply na_ok|].
  destruct (H t (or_introl eq_refl)) as [W K].
  rewrite (proj2 (wf_treeb_spec g t) W), K. simpl. apply IH. intros t' Ht'. apply H. right. assumption.
Qed.

Lemma self_embeddings_checked g pb reach maxn cp ins host r t :
  self_embeddings g pb reach maxn cp ins host = Ok r -> In t r ->
  wf_tree g t /\ ids_kept host t = true.
Proof.
  unfold self_embeddings. destruct (subtree host cp) as [cur|]; [|discriminate].
  destruct (negb (is_nt (lbl cur)) || negb (reach (lbl cur) (lbl cur))); [intro H; inversion H; subst; contradiction|].
  intros H Hin. apply bind_ok in H as (sets & _ & H). apply bind_ok in H as (insts & _ & H).
  destruct (self_loop_In _ _ _ _ _ _ _ _ H Hin) as [[]|(it & orig & _ & _ & _ & _ & Hw & Hk)]. auto.
Qed.

Lemma insert_loop_self_step g chain pb maxn ins host cp cps acc :
  insert_loop g chain pb maxn 2 ins host (cp :: cps) acc =
  if Nat.leb maxn (length acc) then Ok acc
  else bind (bind (self_embeddings g pb (reachable chain) (maxn - length acc) cp ins host)
                  (fun r => add_all g host ins r acc))
            (fun acc2 => insert_loop g chain pb maxn 2 ins host cps acc2).
Proof. reflexivity. Qed.

Theorem insert_tree_self_no_assert g chain pb maxn ins host :
  closed_g g -> pb_ok pb -> wf_tree g host -> wf_tree g ins ->
  insert_tree g chain pb maxn SELF ins host <> Raise AssertErr.
Proof.
  intros Hc Hpb Hhost Hins. unfold insert_tree. change SELF with 2.
  generalize (positions host) ([] : list tree).
  induction l as [|cp cps IH]; intro acc; [apply na_ok|].
  rewrite insert_loop_self_step. destruct (Nat.leb maxn (length acc)); [apply na_ok|].
  apply na_bind; [|intros acc2 _; apply IH].
  apply na_bind; [apply self_embeddings_na; assumption|].
  intros r Hr. apply add_all_na. intros t Ht. eapply self_embeddings_checked; eassumption.
Qed.

(* ---------- every mask without CONTEXT_ADDITION ---------- *)
Lemma good_na {A} (r : res A) : good false r -> na r.
Proof. destruct r as [x|e]; simpl; [intros _; apply na_ok | intros [_ ->]; discriminate]. Qed.

Theorem insert_tree_noctx_no_assert g chain pb maxn m ins host :
  closed_g g -> chain_ok chain -> chain_start chain -> pb_ok pb ->
  wf_tree g host -> wf_tree g ins -> K_ctx m = false ->
  insert_tree g chain pb maxn m ins host <> Raise AssertErr.
Proof.
  intros Hc Hch Hst Hpb Hhost Hins HK. unfold insert_tree, K_ctx in *.
  generalize (positions host) ([] : list tree).
  induction l as [|cp cps IH]; intro acc; [apply na_ok|]. simpl.
  destruct (Nat.leb maxn (length acc)); [apply na_ok|]. rewrite HK.
  apply na_bind.
  { destruct (has_method m DIRECT); [|apply na_ok]. apply na_bind.
    - apply good_na. apply direct_embeddings_good; try assumption. discriminate.
    - intros r Hr. apply add_all_na. intros t Ht.
      pose proof (direct_ok g chain _ ins host r t Hc Hch Hhost Hins Hr Ht) as Hi.
      split; [apply Hi | eapply inserted_ids_kept; eassumption]. }
  intros acc1 _. apply na_bind.
  { destruct (has_method m SELF); [|apply na_ok]. apply na_bind.
    - apply self_embeddings_na; assumption.
    - intros r Hr. apply add_all_na. intros t Ht. eapply self_embeddings_checked; eassumption. }
  intros acc2 _. simpl. apply IH.
Qed.

(* ---------- non-vacuity ---------- *)
Definition pb_ok_tblb (tbl : list (str * str * list (list str))) : bool :=
  forallb (fun e => forallb (fun ch =>
     match ch with
     | X :: ((_ :: _) as rest) => str_eqb X (fst (fst e)) && forallb is_nt ch && str_eqb (last rest X) (snd (fst e))
     | _ => false
     end) (snd e)) tbl.

Lemma pb_ok_tbl_ok tbl : pb_ok_tblb tbl = true -> pb_ok (lookup2 tbl []).
Proof.
  unfold pb_ok, pb_ok_tblb.
  induction tbl as [|[[x y] v] tbl IH]; simpl; intros H A B ch Hin; [contradiction|].
  apply andb_true_iff in H as [H1 H2].
  destruct (str_eqb x A && str_eqb y B) eqn:Exy.
  - apply andb_true_iff in Exy as [Ex Ey]. apply str_eqb_eq in Ex, Ey. subst.
    rewrite forallb_forall in H1. specialize (H1 ch Hin). destruct ch as [|X [|Y r]]; try discriminate.
    apply andb_true_iff in H1 as [H1 H3]. apply andb_true_iff in H1 as [H1 H4].
    apply str_eqb_eq in H1, H3. subst. exists (Y :: r). repeat split; try assumption; try discriminate.
    unfold all_nt. apply Forall_forall. intros s Hs. rewrite forallb_forall in H4. apply H4. assumption.
  - eapply IH; eassumption.
Qed.

Example ex_pb_ok : pb_ok ex_pb.
Proof. apply pb_ok_tbl_ok. vm_compute. reflexivity. Qed.
