(* C13 — specification `inserted`, its verified decision procedure, and the theorems about the
   model Grammar/Insert.v (tree insertion, isla/existential_helpers.py).

   Spec (written independently of the model):
     inserted g host ins r :=  wf_tree g r  /\  lbl r = lbl host
        /\ (every node of host occurs in r with the same id and label)
        /\ exists p, subtree r p = Some ins.

   Hypotheses on the grammar / the grammar graph are explicit premises:
     closed_g g        every nonterminal used in an alternative is defined
     chain_ok chain    the oracle for graph.shortest_non_trivial_path returns chains of >= 2
                       nonterminals that end in the requested symbol (nothing else is assumed:
                       connectedness is re-checked by the model when it picks an alternative). *)
From ISLA Require Import Grammar GrammarFacts TreeFacts Insert.
From Coq Require Import List NArith Bool Arith Lia.
Import ListNotations.


(* ---------- tree equality ---------- *)
Lemma tree_eqb_eq a : forall b, tree_eqb a b = true <-> a = b.
Proof.
  induction a as [l i o ks IH] using tree_ind'. intros [l' i' o' ks']. simpl.
  rewrite !andb_true_iff, str_eqb_eq, N.eqb_eq, eqb_true_iff.
  assert (Hgo : forall ys,
    (fix go (xs ys : list tree) : bool :=
       match xs, ys with
       | [], [] => true
       | x :: xs', y :: ys' => tree_eqb x y && go xs' ys'
       | _, _ => false
       end) ks ys = true <-> ks = ys).
  { induction IH as [|k ks Hk _ IHks]; intros [|y ys]; split; intro H; try reflexivity; try discriminate.
    - apply andb_true_iff in H as [H1 H2]. apply Hk in H1. apply IHks in H2. congruence.
    - inversion H; subst. apply andb_true_iff. split; [apply Hk; reflexivity | apply IHks; reflexivity]. }
  rewrite Hgo. split.
  - intros [[[-> ->] ->] ->]. reflexivity.
  - intro H. inversion H; subst. auto.
Qed.

Lemma tree_eqb_refl a : tree_eqb a a = true.
Proof. apply tree_eqb_eq. reflexivity. Qed.

(* ---------- the specification ---------- *)
Definition inserted (g : grammar) (host ins r : tree) : Prop :=
  wf_tree g r /\ lbl r = lbl host /\
  (forall p n, subtree host p = Some n ->
     exists q m, subtree r q = Some m /\ tid m = tid n /\ lbl m = lbl n) /\
  exists p, subtree r p = Some ins.

Lemma has_node_spec r n :
  has_node r n = true <-> exists q m, subtree r q = Some m /\ tid m = tid n /\ lbl m = lbl n.
Proof.
  unfold has_node. rewrite existsb_exists. split.
  - intros ([q m] & Hin & H). apply nodes_spec in Hin. apply andb_true_iff in H as [H1 H2].
    apply N.eqb_eq in H1. apply str_eqb_eq in H2. exists q, m. auto.
  - intros (q & m & Hs & H1 & H2). exists (q, m). split; [apply nodes_spec; assumption|].
    simpl. rewrite H1, H2, N.eqb_refl, str_eqb_refl. reflexivity.
Qed.

Lemma keeps_nodes_spec host r :
  keeps_nodes host r = true <->
  forall p n, subtree host p = Some n -> exists q m, subtree r q = Some m /\ tid m = tid n /\ lbl m = lbl n.
Proof.
  unfold keeps_nodes. rewrite forallb_forall. split.
  - intros H p n Hs. apply has_node_spec. apply (H (p, n)). apply nodes_spec. assumption.
  - intros H [p n] Hin. apply has_node_spec. apply (H p). apply nodes_spec. assumption.
Qed.

Lemma has_subtree_spec r ins : has_subtree r ins = true <-> exists p, subtree r p = Some ins.
Proof.
  unfold has_subtree. rewrite existsb_exists. split.
  - intros ([p m] & Hin & H). apply tree_eqb_eq in H. simpl in H. subst. exists p. apply nodes_spec. assumption.
  - intros (p & Hs). exists (p, ins). split; [apply nodes_spec; assumption | apply tree_eqb_refl].
Qed.

Theorem insertedb_spec g host ins r : insertedb g host ins r = true <-> inserted g host ins r.
Proof.
  unfold insertedb, inserted.
  rewrite !andb_true_iff, wf_treeb_spec, str_eqb_eq, keeps_nodes_spec, has_subtree_spec. tauto.
Qed.


(* ---------- set_nth ---------- *)
Lemma nth_error_set_nth_eq {A} (l : list A) i x c :
  nth_error l i = Some c -> nth_error (set_nth l i x) i = Some x.
Proof. revert i; induction l as [|y l IH]; intros [|i] H; simpl in *; try discriminate; auto. Qed.

Lemma nth_error_set_nth_neq {A} (l : list A) i j x :
  i <> j -> nth_error (set_nth l i x) j = nth_error l j.
Proof.
  revert i j; induction l as [|y l IH]; intros [|i] [|j] H; simpl; auto; try congruence.
Qed.

Lemma map_set_nth {A B} (f : A -> B) (l : list A) i x c :
  nth_error l i = Some c -> f x = f c -> map f (set_nth l i x) = map f l.
Proof.
  revert i; induction l as [|y l IH]; intros [|i] H E; simpl in *; try discriminate.
  - inversion H; subst. rewrite E. reflexivity.
  - f_equal. apply IH; assumption.
Qed.

Lemma Forall_set_nth {A} (P : A -> Prop) (l : list A) i x :
  Forall P l -> P x -> Forall P (set_nth l i x).
Proof.
  intros H; revert i; induction H as [|y l Hy Hl IH]; intros [|i] Hx; simpl; constructor; auto.
Qed.

Lemma set_nth_nonempty {A} (l : list A) i x c : nth_error l i = Some c -> set_nth l i x <> [].
Proof. destruct l, i; simpl; intros H; try discriminate. Qed.

(* ---------- replace_at ---------- *)
Lemma replace_at_subtree p : forall t r t', replace_at t p r = Some t' -> subtree t' p = Some r.
Proof.
  induction p as [|i p IH]; intros t r t' H; simpl in *.
  - congruence.
  - destruct (nth_error (kids t) i) as [c|] eqn:Hc; [|discriminate].
    destruct (replace_at c p r) as [c'|] eqn:Hr; [|discriminate].
    inversion H; subst. simpl. rewrite (nth_error_set_nth_eq _ _ _ _ Hc). eapply IH; eassumption.
Qed.

Lemma replace_at_root p : forall t r t' old,
  replace_at t p r = Some t' -> subtree t p = Some old -> lbl r = lbl old ->
  lbl t' = lbl t.
Proof.
  destruct p as [|i p]; intros t r t' old H Hs E; simpl in *.
  - inversion H; inversion Hs; subst. assumption.
  - destruct (nth_error (kids t) i) as [c|]; [|discriminate].
    destruct (replace_at c p r) as [c'|]; [|discriminate]. inversion H; subst. reflexivity.
Qed.

(* replacing a childless node by one with the same id and label keeps every node (id, label) *)
Lemma replace_at_keeps p : forall t r t' old,
  replace_at t p r = Some t' -> subtree t p = Some old -> kids old = [] ->
  tid r = tid old -> lbl r = lbl old ->
  forall q n, subtree t q = Some n ->
    exists m, subtree t' q = Some m /\ tid m = tid n /\ lbl m = lbl n.
Proof.
  induction p as [|i p IH]; intros t r t' old H Hs Hk Ei El q n Hq; simpl in *.
  - inversion H; inversion Hs; subst. destruct q as [|j q]; simpl in Hq.
    + inversion Hq; subst. exists t'. auto.
    + rewrite Hk in Hq. destruct j; discriminate.
  - destruct (nth_error (kids t) i) as [c|] eqn:Hc; [|discriminate].
    destruct (replace_at c p r) as [c'|] eqn:Hr; [|discriminate]. inversion H; subst.
    destruct q as [|j q]; simpl in *.
    + inversion Hq; subst. eexists. split; [reflexivity|]. auto.
    + destruct (Nat.eq_dec i j) as [->|Hne].
      * rewrite (nth_error_set_nth_eq _ _ _ _ Hc). rewrite Hc in Hq.
        eapply IH; eassumption.
      * rewrite (nth_error_set_nth_neq _ _ _ _ Hne). exists n. auto.
Qed.

(* ---------- validity ---------- *)
Lemma wf_tree_reid g l i j o ks : wf_tree g (Node l i o ks) -> wf_tree g (Node l j o ks).
Proof. intro H. apply wf_treeb_spec. apply wf_treeb_spec in H. exact H. Qed.

Lemma is_nt_nil : is_nt [] = false.
Proof. reflexivity. Qed.

Lemma wf_kids g t i c : wf_tree g t -> nth_error (kids t) i = Some c -> wf_tree g c.
Proof.
  intros H Hc.
  inversion H as [A i' HA HD | w i' Hw | A i' ks' HA Hne Hin Hall | A i' HA Hin | A i' j HA Hin];
    subst; simpl in Hc.
  - destruct i; discriminate.
  - destruct i; discriminate.
  - rewrite Forall_forall in Hall. apply Hall. eapply nth_error_In; eassumption.
  - destruct i; discriminate.
  - destruct i as [|[|i]]; simpl in Hc; try discriminate. inversion Hc; subst.
    apply wf_term. reflexivity.
Qed.

Lemma wf_subtree g p : forall t s, wf_tree g t -> subtree t p = Some s -> wf_tree g s.
Proof.
  induction p as [|i p IH]; intros t s H Hs; simpl in Hs.
  - congruence.
  - destruct (nth_error (kids t) i) as [c|] eqn:Hc; [|discriminate].
    eapply IH; [eapply wf_kids; eassumption | assumption].
Qed.

Lemma wf_open_kids g t : wf_tree g t -> opn t = true -> kids t = [] /\ is_nt (lbl t) = true.
Proof. intros H Ho. inversion H; subst; simpl in *; try discriminate. auto. Qed.

(* replacing a node labelled with a nonterminal by a valid tree with the same label keeps validity *)
Lemma replace_at_wf g p : forall t r t' old,
  wf_tree g t -> replace_at t p r = Some t' -> subtree t p = Some old ->
  lbl r = lbl old -> is_nt (lbl old) = true -> wf_tree g r -> wf_tree g t'.
Proof.
  induction p as [|i p IH]; intros t r t' old Hwf H Hs El Hnt Hr; simpl in *.
  - congruence.
  - destruct (nth_error (kids t) i) as [c|] eqn:Hc; [|discriminate].
    destruct (replace_at c p r) as [c'|] eqn:Hrep; [|discriminate]. inversion H; subst.
    assert (Hlc : lbl c' = lbl c) by (eapply replace_at_root; eassumption).
    inversion Hwf as [A i' HA HD | w i' Hw | A i' ks' HA Hne Hin Hall | A i' HA Hin | A i' j HA Hin];
      subst; simpl in *.
    + destruct i; discriminate.
    + destruct i; discriminate.
    + apply wf_inner; try assumption.
      * eapply set_nth_nonempty; eassumption.
      * rewrite (map_set_nth lbl _ _ _ _ Hc Hlc). assumption.
      * apply Forall_set_nth; [assumption|].
        apply (IH c r c' old); try assumption. rewrite Forall_forall in Hall. apply Hall.
        eapply nth_error_In; eassumption.
    + destruct i; discriminate.
    + (* the fuzzer's epsilon child is a terminal: nothing labelled with a nonterminal below *)
      destruct i as [|[|i]]; simpl in Hc; try discriminate. inversion Hc; subst.
      destruct p as [|k p]; simpl in Hs.
      * inversion Hs; subst. simpl in Hnt. discriminate.
      * destruct k; discriminate.
Qed.


(* ---------- hypotheses on the grammar and on the graph oracle ---------- *)
(* every nonterminal used in an alternative has rules (part of is_valid_grammar) *)
Definition closed_g (g : grammar) : Prop :=
  forall A a s, In a (alts g A) -> In s a -> is_nt s = true -> defined g s = true.

Definition all_nt (l : list str) : Prop := Forall (fun s => is_nt s = true) l.

(* a nonterminal chain X :: rest ending in B with at least one step ("non-trivial path") *)
Definition good_chain (ch : list str) (B : str) : Prop :=
  exists X rest, ch = X :: rest /\ rest <> [] /\ last rest X = B /\ all_nt rest.

Definition chain_ok (chain : graph_chain) : Prop :=
  forall A B ch, chain A B = Some ch -> good_chain ch B.

(* ---------- small facts ---------- *)
Lemma bind_ok {A B} (r : res A) (f : A -> res B) y :
  bind r f = Ok y -> exists x, r = Ok x /\ f x = Ok y.
Proof. destruct r; simpl; intro H; [eauto | discriminate]. Qed.

Lemma assert_ok b u : assert b = Ok u -> b = true.
Proof. destruct b; simpl; [reflexivity | discriminate]. Qed.

Lemma last_default {A} (l : list A) d d' : l <> [] -> last l d = last l d'.
Proof.
  induction l as [|x l IH]; intro H; [contradiction|]. destruct l as [|y l]; [reflexivity|].
  change (last (y :: l) d = last (y :: l) d'). apply IH. discriminate.
Qed.

Lemma mem_In s a : mem s a = true <-> In s a.
Proof.
  unfold mem. rewrite existsb_exists. split.
  - intros (x & Hx & E). apply str_eqb_eq in E. subst. assumption.
  - intro H. exists s. split; [assumption | apply str_eqb_refl].
Qed.

Lemma alts_with_In g A B a : In a (alts_with g A B) <-> In a (alts g A) /\ In B a.
Proof. unfold alts_with. rewrite filter_In, mem_In. tauto. Qed.

Lemma shortest_first_In l a : shortest_first l = Some a -> In a l.
Proof. unfold shortest_first. intro H. apply find_some in H. tauto. Qed.

Lemma index_of_nth B a : In B a -> nth_error a (index_of B a) = Some B.
Proof.
  induction a as [|x a IH]; intro H; [contradiction|]. simpl.
  destruct (str_eqb x B) eqn:E.
  - apply str_eqb_eq in E. subst. reflexivity.
  - simpl. apply IH. destruct H as [H|H]; [|assumption].
    subst. rewrite str_eqb_refl in E. discriminate.
Qed.

Lemma lbl_sib s : lbl (sib s) = s.
Proof. reflexivity. Qed.

Lemma map_lbl_sib a : map lbl (map sib a) = a.
Proof. induction a as [|s a IH]; simpl; [reflexivity | f_equal; assumption]. Qed.

Lemma alts_defined g A a : In a (alts g A) -> defined g A = true.
Proof.
  unfold defined. induction g as [|[B al] g IH]; simpl; [contradiction|].
  destruct (str_eqb A B) eqn:E; simpl; [reflexivity|]. assumption.
Qed.

Lemma sib_wf g A a s : closed_g g -> In a (alts g A) -> In s a -> wf_tree g (sib s).
Proof.
  intros Hc Ha Hs. unfold sib. destruct (is_nt s) eqn:E.
  - apply wf_open; [assumption | eapply Hc; eassumption].
  - apply wf_term. assumption.
Qed.

Section Fill.
  Variable g : grammar.
  Variable P : tree -> Prop.

  Lemma fill_lbl a : forall i sub B, nth_error a i = Some B -> lbl sub = B -> map lbl (fill a i sub) = a.
  Proof.
    induction a as [|s a IH]; intros [|i] sub B H E; simpl in *; try discriminate.
    - inversion H; subst. rewrite map_lbl_sib. reflexivity.
    - f_equal. eapply IH; eassumption.
  Qed.

  Lemma fill_Forall a : forall i sub, (forall s, In s a -> P (sib s)) -> P sub -> Forall P (fill a i sub).
  Proof.
    induction a as [|s a IH]; intros i sub Hs Hsub; simpl; [constructor|].
    destruct i as [|i].
    - constructor; [assumption|]. apply Forall_forall. intros x Hx. apply in_map_iff in Hx as (s' & <- & Hin).
      apply Hs. right. assumption.
    - constructor; [apply Hs; left; reflexivity|]. apply IH; [|assumption].
      intros s' H'. apply Hs. right. assumption.
  Qed.

  Lemma fill_nth a : forall i sub B, nth_error a i = Some B -> nth_error (fill a i sub) i = Some sub.
  Proof.
    induction a as [|s a IH]; intros [|i] sub B H; simpl in *; try discriminate; [reflexivity|].
    eapply IH; eassumption.
  Qed.

  Lemma fill_nonempty a i sub B : nth_error a i = Some B -> fill a i sub <> [].
  Proof. destruct a, i; simpl; intros H; try discriminate. Qed.
End Fill.

(* ---------- wrap_in_tree_starting_in ---------- *)
Lemma wrap_ok g (Hc : closed_g g) ins (Hins : wf_tree g ins) :
  forall rest A t,
    is_nt A = true -> rest <> [] -> all_nt rest -> lbl ins = last rest A ->
    wrap g A rest ins = Ok t ->
    wf_tree g t /\ lbl t = A /\ opn t = false /\ exists i q, subtree t (i :: q) = Some ins.
Proof.
  induction rest as [|B rest IH]; intros A t HA Hne Hnt Hl H; [contradiction|].
  simpl in H. destruct (shortest_first (alts_with g A B)) as [a|] eqn:Hsf; [|discriminate].
  apply shortest_first_In in Hsf. apply alts_with_In in Hsf as [Ha HB].
  apply bind_ok in H as (sub & Hsub & H). inversion H; subst; clear H.
  pose proof (index_of_nth B a HB) as Hidx.
  inversion Hnt as [|B' rest' HBnt Hnt']; subst.
  assert (Hsubok : wf_tree g sub /\ lbl sub = B /\ exists q, subtree sub q = Some ins).
  { destruct rest as [|B2 rest].
    - inversion Hsub; subst. simpl in Hl. repeat split; auto. exists []. reflexivity.
    - destruct (IH B sub HBnt ltac:(discriminate) Hnt') as (W & L & _ & i & q & S); try assumption.
      + rewrite Hl. change (last (B :: B2 :: rest) A) with (last (B2 :: rest) A).
        apply last_default. discriminate.
      + repeat split; auto. exists (i :: q). assumption. }
  destruct Hsubok as (Wsub & Lsub & q & Sq).
  repeat split.
  - apply wf_inner.
    + assumption.
    + eapply fill_nonempty; eassumption.
    + rewrite (fill_lbl a _ sub B Hidx Lsub). assumption.
    + apply fill_Forall; [|assumption]. intros s Hs. eapply sib_wf; eassumption.
  - exists (index_of B a), q. simpl. rewrite (fill_nth a _ sub B Hidx). assumption.
Qed.

(* ---------- compute_direct_embeddings ---------- *)
Lemma put_In acc x t : In t (put acc x) -> In t acc \/ t = x.
Proof.
  induction acc as [|y acc IH]; simpl.
  - intros [H|[]]. right. congruence.
  - destruct (struct_eqb y x); simpl; intros [H|H].
    + right. congruence.
    + left. right. assumption.
    + left. left. assumption.
    + destruct (IH H) as [H'|H']; [left; right; assumption | right; assumption].
Qed.

Lemma direct_step_ok g chain ins host p leaf new :
  closed_g g -> chain_ok chain -> wf_tree g host -> wf_tree g ins ->
  subtree host p = Some leaf -> opn leaf = true ->
  direct_step g chain ins host (p, leaf) = Ok new ->
  inserted g host ins new.
Proof.
  intros Hc Hch Hhost Hins Hp Ho H. unfold direct_step in H. simpl in H.
  destruct (chain (lbl leaf) (lbl ins)) as [ch|] eqn:Ech; [|discriminate].
  apply Hch in Ech as (X & rest & -> & Hne & Hlast & Hnt).
  apply bind_ok in H as (t & Hw & H). apply bind_ok in H as (u1 & Ha1 & H).
  apply bind_ok in H as (new' & Hrep & H). apply bind_ok in H as (u2 & _ & H).
  inversion H; subst new'; clear H.
  apply assert_ok in Ha1. apply str_eqb_eq in Ha1.
  pose proof (wf_subtree g p host leaf Hhost Hp) as Hleaf.
  destruct (wf_open_kids g leaf Hleaf Ho) as [Hk HntL].
  simpl in Hw.
  assert (HX : is_nt X = true).
  { destruct rest as [|B rest]; [contradiction|]. simpl in Hw.
    destruct (shortest_first (alts_with g X B)); [|discriminate].
    apply bind_ok in Hw as (sub & _ & Hw). inversion Hw; subst. simpl in Ha1. congruence. }
  destruct (wrap_ok g Hc ins Hins rest X t HX Hne Hnt (eq_sym Hlast) Hw) as (Wt & Lt & Ot & i & q & Sq).
  set (r := Node (lbl t) (tid leaf) (opn t) (kids t)) in *.
  assert (Wr : wf_tree g r). { destruct t as [l j o ks]. eapply wf_tree_reid. exact Wt. }
  unfold replace_path in Hrep. destruct (replace_at host p r) as [new'|] eqn:Hr; [|discriminate].
  inversion Hrep; subst new'; clear Hrep.
  assert (Lr : lbl r = lbl leaf) by (simpl; assumption).
  repeat split.
  - apply (replace_at_wf g p host r new leaf Hhost Hr Hp Lr HntL Wr).
  - apply (replace_at_root p host r new leaf Hr Hp Lr).
  - intros p' n Hn. destruct (replace_at_keeps p host r new leaf Hr Hp Hk eq_refl Lr p' n Hn) as (m & Hm & E1 & E2).
    exists p', m. auto.
  - exists (p ++ i :: q). rewrite subtree_app. rewrite (replace_at_subtree p host r new Hr).
    destruct t as [l j o ks]. exact Sq.
Qed.

Lemma direct_loop_In g chain maxn ins host : forall ms acc rs t,
  direct_loop g chain maxn ins host ms acc = Ok rs -> In t rs ->
  In t acc \/ exists pt, In pt ms /\ direct_step g chain ins host pt = Ok t.
Proof.
  induction ms as [|pt ms IH]; intros acc rs t H Hin; simpl in H.
  - inversion H; subst. left. assumption.
  - destruct (Nat.leb maxn (length acc)).
    + inversion H; subst. left. assumption.
    + apply bind_ok in H as (new & Hstep & H).
      destruct (IH _ _ _ H Hin) as [Hacc|(pt' & Hpt & Hs)].
      * apply put_In in Hacc as [Hacc| ->]; [left; assumption|].
        right. exists pt. split; [left; reflexivity | assumption].
      * right. exists pt'. split; [right; assumption | assumption].
Qed.

Theorem direct_ok g chain maxn ins host rs t :
  closed_g g -> chain_ok chain -> wf_tree g host -> wf_tree g ins ->
  direct_embeddings g chain maxn ins host = Ok rs -> In t rs ->
  inserted g host ins t.
Proof.
  intros Hc Hch Hhost Hins H Hin. unfold direct_embeddings in H.
  destruct (direct_loop_In _ _ _ _ _ _ _ _ _ H Hin) as [[]|([p leaf] & Hpt & Hs)].
  unfold embeddable in Hpt. apply filter_In in Hpt as [Hn Hf]. apply nodes_spec in Hn.
  apply andb_true_iff in Hf as [Ho _]. simpl in Ho.
  eapply direct_step_ok; eassumption.
Qed.


(* ---------- make_leaves_open / path_to_tree ---------- *)
Lemma lbl_mlo t : lbl (mlo t) = lbl t.
Proof. destruct t as [l i [|] [|k ks]]; simpl; try reflexivity. destruct (is_nt l); reflexivity. Qed.

Lemma mlo_node l i ks : ks <> [] -> mlo (Node l i false ks) = Node l i false (map mlo ks).
Proof. destruct ks; [contradiction | reflexivity]. Qed.

Lemma mlo_closed_leaf s : mlo (Node s 0 false []) = sib s.
Proof. unfold sib. simpl. destruct (is_nt s); reflexivity. Qed.

Lemma ptt_kids_mlo a : forall i sub, map mlo (ptt_kids a i sub) = fill a i (mlo sub).
Proof.
  induction a as [|s a IH]; intros [|i] sub; cbn [ptt_kids fill map]; try reflexivity.
  - f_equal. rewrite map_map. apply map_ext. intro s'. apply mlo_closed_leaf.
  - rewrite mlo_closed_leaf. f_equal. apply IH.
Qed.

Lemma ptt_kids_nonempty a i sub B : nth_error a i = Some B -> ptt_kids a i sub <> [].
Proof. destruct a, i; simpl; intros H; try discriminate. Qed.

Lemma positions_from_nth B a : forall k i, In i (positions_from B a k) ->
  exists j, i = k + j /\ nth_error a j = Some B.
Proof.
  induction a as [|x a IH]; intros k i H; simpl in H; [contradiction|].
  destruct (str_eqb x B) eqn:E.
  - destruct H as [<-|H].
    + exists 0. apply str_eqb_eq in E. subst. split; [lia | reflexivity].
    + destruct (IH _ _ H) as (j & -> & Hj). exists (S j). split; [lia | assumption].
  - destruct (IH _ _ H) as (j & -> & Hj). exists (S j). split; [lia | assumption].
Qed.

Lemma last_cons {A} (x : A) r d : last (x :: r) d = last r x.
Proof. destruct r as [|y r]; [reflexivity|]. change (last (y :: r) d = last (y :: r) x). apply last_default. discriminate. Qed.

Lemma ptt_raw_ok g (Hc : closed_g g) : forall rest A t,
  is_nt A = true -> (rest = [] -> defined g A = true) -> all_nt rest ->
  In t (ptt_raw g A rest) ->
  wf_tree g (mlo t) /\ lbl (mlo t) = A /\
  exists p, length p = length rest /\ subtree (mlo t) p = Some (Node (last rest A) 0 true []).
Proof.
  induction rest as [|B rest IH]; intros A t HA HD Hnt Hin; simpl in Hin.
  - destruct Hin as [<-|[]]. simpl. repeat split.
    + apply wf_open; auto.
    + exists []. split; reflexivity.
  - apply in_flat_map in Hin as (a & Ha & Hin). apply in_flat_map in Hin as (i & Hi & Hin).
    apply in_map_iff in Hin as (sub & <- & Hsub).
    apply alts_with_In in Ha as [Ha HB].
    apply positions_from_nth in Hi as (j & -> & Hj). change (0 + j) with j in *.
    inversion Hnt as [|B' rest' HBnt Hnt']; subst.
    destruct (IH B sub HBnt (fun _ => Hc A a B Ha HB HBnt) Hnt' Hsub) as (W & L & p & Lp & Sp).
    rewrite (mlo_node A 0 _ (ptt_kids_nonempty a j sub B Hj)), ptt_kids_mlo.
    repeat split.
    + apply wf_inner.
      * assumption.
      * eapply fill_nonempty; eassumption.
      * rewrite (fill_lbl a j (mlo sub) B Hj L). assumption.
      * apply fill_Forall; [|assumption]. intros s Hs. eapply sib_wf; eassumption.
    + exists (j :: p). split; [simpl; congruence|]. rewrite last_cons. cbn [subtree kids].
      rewrite (fill_nth a j (mlo sub) B Hj). exact Sp.
Qed.

(* path_to_tree: every produced tree is a valid derivation tree rooted in the first chain symbol
   and has, at depth |chain|-1, the open leaf labelled with the last chain symbol *)
Theorem path_to_tree_ok g ch ts t :
  closed_g g -> all_nt ch -> path_to_tree g ch = Ok ts -> In t ts ->
  exists A rest, ch = A :: rest /\ rest <> [] /\
    wf_tree g t /\ lbl t = A /\
    exists p, length p = length rest /\ subtree t p = Some (Node (last rest A) 0 true []).
Proof.
  intros Hc Hnt H Hin. destruct ch as [|A [|B rest]]; simpl in H; try discriminate.
  inversion H; subst; clear H. apply in_map_iff in Hin as (t0 & <- & Hin).
  inversion Hnt as [|A' r' HA Hnt']; subst.
  exists A, (B :: rest). split; [reflexivity|]. split; [discriminate|].
  apply ptt_raw_ok; try assumption. discriminate.
Qed.


(* ---------- insert_tree restricted to DIRECT_EMBEDDING (methods = 1) ---------- *)
Lemma add_all_In g host ins : forall new acc rs t,
  add_all g host ins new acc = Ok rs -> In t rs -> In t acc \/ In t new.
Proof.
  induction new as [|x new IH]; intros acc rs t H Hin; simpl in H.
  - inversion H; subst. left. assumption.
  - apply bind_ok in H as (u1 & _ & H). apply bind_ok in H as (u2 & _ & H).
    destruct (IH _ _ _ H Hin) as [Hacc|Hnew]; [|right; right; assumption].
    destruct (contains x ins && negb (existsb (struct_eqb x) acc)); [|left; assumption].
    apply in_app_or in Hacc as [Hacc|[<-|[]]]; [left; assumption | right; left; reflexivity].
Qed.

Lemma insert_loop_direct_step g chain pb maxn ins host cp cps acc :
  insert_loop g chain pb maxn 1 ins host (cp :: cps) acc =
  if Nat.leb maxn (length acc) then Ok acc
  else bind (bind (direct_embeddings g chain (maxn - length acc) ins host)
                  (fun r => add_all g host ins r acc))
            (fun acc1 => insert_loop g chain pb maxn 1 ins host cps acc1).
Proof. reflexivity. Qed.

Lemma insert_loop_direct_In g chain pb maxn ins host : forall cps acc rs t,
  insert_loop g chain pb maxn 1 ins host cps acc = Ok rs -> In t rs ->
  In t acc \/ exists n r, direct_embeddings g chain n ins host = Ok r /\ In t r.
Proof.
  induction cps as [|cp cps IH]; intros acc rs t H Hin.
  - simpl in H. inversion H; subst. left. assumption.
  - rewrite insert_loop_direct_step in H. destruct (Nat.leb maxn (length acc)).
    + inversion H; subst. left. assumption.
    + apply bind_ok in H as (acc1 & H1 & H). apply bind_ok in H1 as (r & Hd & Ha).
      destruct (IH _ _ _ H Hin) as [Hacc|Hex]; [|right; assumption].
      destruct (add_all_In _ _ _ _ _ _ _ Ha Hacc) as [H0|Hr]; [left; assumption|].
      right. exists (maxn - length acc), r. split; assumption.
Qed.

Theorem insert_tree_direct_ok g chain pb maxn ins host rs t :
  closed_g g -> chain_ok chain -> wf_tree g host -> wf_tree g ins ->
  insert_tree g chain pb maxn DIRECT ins host = Ok rs -> In t rs ->
  inserted g host ins t.
Proof.
  intros Hc Hch Hh Hi H Hin. unfold insert_tree in H.
  destruct (insert_loop_direct_In _ _ _ _ _ _ _ _ _ _ H Hin) as [[]|(n & r & Hd & Hr)].
  eapply direct_ok; eassumption.
Qed.

(* ---------- connect_trees: one connection ---------- *)
Lemma replace_at_some p : forall t r s, subtree t p = Some s -> exists t', replace_at t p r = Some t'.
Proof.
  induction p as [|i p IH]; intros t r s H; simpl in *; [eauto|].
  destruct (nth_error (kids t) i) as [c|]; [|discriminate].
  destruct (IH c r s H) as (c' & ->). eauto.
Qed.

(* the assertions of connect_trees cannot fire, and the new tree is valid, keeps the root label
   and contains the added tree at insertion path ++ leaf path *)
Theorem connect_one_ok g add parent ip ct lp orig :
  wf_tree g parent -> wf_tree g add -> wf_tree g ct ->
  subtree parent ip = Some orig -> is_nt (lbl orig) = true -> lbl ct = lbl orig ->
  lp <> [] -> subtree ct lp = Some (Node (lbl add) 0 true []) -> is_nt (lbl add) = true ->
  exists new, connect_one g add parent ip ct lp = Ok new /\
    wf_tree g new /\ lbl new = lbl parent /\ subtree new (ip ++ lp) = Some add.
Proof.
  intros Hp Ha Hct Hs Hnt Hl Hne Hleaf Hnta. unfold connect_one. rewrite Hs.
  set (ct' := Node (lbl ct) (tid orig) (opn ct) (kids ct)).
  assert (Wct' : wf_tree g ct'). { destruct ct as [l j o ks]. eapply wf_tree_reid. exact Hct. }
  assert (Hleaf' : subtree ct' lp = Some (Node (lbl add) 0 true [])).
  { destruct lp as [|i lp]; [contradiction|]. destruct ct. exact Hleaf. }
  destruct (replace_at_some lp ct' add _ Hleaf') as (inst & Hinst).
  assert (Winst : wf_tree g inst).
  { apply (replace_at_wf g lp ct' add inst _ Wct' Hinst Hleaf'); auto. }
  assert (Linst : lbl inst = lbl orig).
  { rewrite (replace_at_root lp ct' add inst _ Hinst Hleaf' eq_refl). simpl. assumption. }
  destruct (replace_at_some ip parent inst _ Hs) as (new & Hnew).
  assert (Wnew : wf_tree g new) by (apply (replace_at_wf g ip parent inst new orig Hp Hnew Hs Linst Hnt Winst)).
  exists new. unfold replace_path. rewrite Hinst. simpl. rewrite Hnew. simpl.
  rewrite (proj2 (wf_treeb_spec g new) Wnew). simpl. repeat split.
  - assumption.
  - apply (replace_at_root ip parent inst new orig Hnew Hs Linst).
  - rewrite subtree_app, (replace_at_subtree ip parent inst new Hnew).
    apply (replace_at_subtree lp ct' add inst Hinst).
Qed.

(* ---------- executable checks of the hypotheses (for non-vacuity examples) ---------- *)
Definition closed_gb (g : grammar) : bool :=
  forallb (fun r => forallb (fun a => forallb (fun s => negb (is_nt s) || defined g s) a) (snd r)) g.

Lemma alts_In g A a : In a (alts g A) -> exists r, In r g /\ In a (snd r).
Proof.
  induction g as [|[B al] g IH]; simpl; [contradiction|].
  destruct (str_eqb A B).
  - intro H. exists (B, al). auto.
  - intro H. destruct (IH H) as (r & Hr & Ha). exists r. auto.
Qed.

Lemma closed_gb_spec g : closed_gb g = true -> closed_g g.
Proof.
  unfold closed_gb, closed_g. intros H A a s Ha Hs Hnt. rewrite forallb_forall in H.
  destruct (alts_In g A a Ha) as (r & Hr & Har).
  specialize (H r Hr). rewrite forallb_forall in H. specialize (H a Har).
  rewrite forallb_forall in H. specialize (H s Hs). rewrite Hnt in H. exact H.
Qed.

Definition good_chainb (ch : list str) (B : str) : bool :=
  match ch with
  | X :: (Y :: r) as rest => str_eqb (last rest X) B && forallb is_nt rest
  | _ => false
  end.

Lemma good_chainb_spec ch B : good_chainb ch B = true -> good_chain ch B.
Proof.
  unfold good_chainb. destruct ch as [|X [|Y r]]; try discriminate. intro H.
  apply andb_true_iff in H as [H1 H2]. apply str_eqb_eq in H1.
  exists X, (Y :: r). repeat split; try assumption; try discriminate.
  unfold all_nt. apply Forall_forall. intros s Hs. rewrite forallb_forall in H2. apply H2. assumption.
Qed.

Definition chain_of_tbl (tbl : list (str * str * list str)) : graph_chain :=
  lookup2 (map (fun e => (fst (fst e), snd (fst e), Some (snd e))) tbl) None.

Definition chain_tblb (tbl : list (str * str * list str)) : bool :=
  forallb (fun e => good_chainb (snd e) (snd (fst e))) tbl.

Lemma chain_tbl_ok tbl : chain_tblb tbl = true -> chain_ok (chain_of_tbl tbl).
Proof.
  unfold chain_ok, chain_of_tbl, chain_tblb. induction tbl as [|[[x y] v] tbl IH]; simpl; intros H A B ch E.
  - discriminate.
  - apply andb_true_iff in H as [H1 H2]. simpl in H1.
    destruct (str_eqb x A && str_eqb y B) eqn:Exy.
    + inversion E; subst. apply andb_true_iff in Exy as [_ Ey]. apply str_eqb_eq in Ey. subst.
      apply good_chainb_spec. assumption.
    + eapply IH; eassumption.
Qed.

(* ---------- a concrete instance: arithmetic expressions ---------- *)
Definition s0 : str := [60;115;116;97;114;116;62]%N.   (* <start> *)
Definition s1 : str := [60;101;62]%N.                    (* <e> *)
Definition s2 : str := [60;116;62]%N.                    (* <t> *)
Definition s3 : str := [43]%N.
Definition s4 : str := [60;102;62]%N.                    (* <f> *)
Definition s5 : str := [42]%N.
Definition s6 : str := [91]%N.
Definition s7 : str := [93]%N.
Definition s8 : str := [60;110;62]%N.                    (* <n> *)
Definition s9 : str := [49]%N.
Definition s10 : str := [50]%N.
Definition ex_g : grammar := [(s0, [[s1]]); (s1, [[s2; s3; s1]; [s2]]); (s2, [[s4; s5; s2]; [s4]]); (s4, [[s6; s1; s7]; [s8]]); (s8, [[s9]; [s10]; [s8; s8]])].
(* graph.shortest_non_trivial_path / paths_between of the real GrammarGraph of this grammar *)
Definition ex_chain_tbl : list (str * str * list str) := [(s0, s1, [s0; s1]); (s0, s2, [s0; s1; s2]); (s0, s4, [s0; s1; s2; s4]); (s0, s8, [s0; s1; s2; s4; s8]); (s1, s1, [s1; s1]); (s1, s2, [s1; s2]); (s1, s4, [s1; s2; s4]); (s1, s8, [s1; s2; s4; s8]); (s2, s1, [s2; s4; s1]); (s2, s2, [s2; s2]); (s2, s4, [s2; s4]); (s2, s8, [s2; s4; s8]); (s4, s1, [s4; s1]); (s4, s2, [s4; s1; s2]); (s4, s4, [s4; s1; s2; s4]); (s4, s8, [s4; s1; s2; s4; s8]); (s8, s8, [s8; s8])].
Definition ex_pb_tbl : list (str * str * list (list str)) := [(s0, s1, [[s0; s1]]); (s0, s2, [[s0; s1; s2]]); (s0, s4, [[s0; s1; s2; s4]]); (s0, s8, [[s0; s1; s2; s4; s8]]); (s1, s1, [[s1; s2; s4; s1]; [s1; s1]]); (s1, s2, [[s1; s2]]); (s1, s4, [[s1; s2; s4]]); (s1, s8, [[s1; s2; s4; s8]]); (s2, s1, [[s2; s4; s1]]); (s2, s2, [[s2; s4; s1; s2]; [s2; s2]]); (s2, s4, [[s2; s4]]); (s2, s8, [[s2; s4; s8]]); (s4, s1, [[s4; s1]]); (s4, s2, [[s4; s1; s2]]); (s4, s4, [[s4; s1; s2; s4]]); (s4, s8, [[s4; s8]]); (s8, s8, [[s8; s8]])].
Definition ex_chain : graph_chain := chain_of_tbl ex_chain_tbl.
Definition ex_pb : graph_paths := lookup2 ex_pb_tbl [].

(* host  <start>#2(<e>#1 open) ;  inserted  <e>#5(<t>#4(<f>#3 open)) *)
Definition ex_host : tree := Node s0 2 false [Node s1 1 true []].
Definition ex_ins : tree := Node s1 5 false [Node s2 4 false [Node s4 3 true []]].

Example ex_hyps : closed_g ex_g /\ chain_ok ex_chain /\ wf_tree ex_g ex_host /\ wf_tree ex_g ex_ins.
Proof.
  repeat split.
  - apply closed_gb_spec. vm_compute. reflexivity.
  - apply chain_tbl_ok. vm_compute. reflexivity.
  - apply wf_treeb_spec. vm_compute. reflexivity.
  - apply wf_treeb_spec. vm_compute. reflexivity.
Qed.

(* non-vacuity: the hypotheses of direct_ok / insert_tree_direct_ok hold and a result exists *)
Example direct_nonvacuous :
  exists rs t, insert_tree ex_g ex_chain ex_pb 50 DIRECT ex_ins ex_host = Ok rs /\ In t rs /\ size t > size ex_host.
Proof. eexists. eexists. split; [vm_compute; reflexivity|]. split; [left; reflexivity|]. vm_compute. lia. Qed.

Example path_to_tree_nonvacuous :
  exists ts t, path_to_tree ex_g [s1; s2; s4; s1] = Ok ts /\ In t ts /\ all_nt [s1; s2; s4; s1].
Proof.
  eexists. eexists. split; [vm_compute; reflexivity|]. split; [left; reflexivity|].
  repeat constructor.
Qed.

(* the full property is FALSE for the faithful model once CONTEXT_ADDITION is in the mask *)
Theorem context_refuted :
  exists rs t, K_ctx CONTEXT = true /\
    insert_tree ex_g ex_chain ex_pb 50 CONTEXT ex_ins ex_host = Ok rs /\ In t rs /\
    ~ inserted ex_g ex_host ex_ins t /\ inserted_lossyb ex_g ex_host ex_ins t = true.
Proof.
  eexists. eexists. split; [reflexivity|]. split; [vm_compute; reflexivity|].
  split; [left; reflexivity|]. split.
  - intro H. apply insertedb_spec in H. vm_compute in H. discriminate.
  - vm_compute. reflexivity.
Qed.

(* with SELF_EMBEDDING only, the same input is handled correctly by the model *)
Example self_example :
  exists rs, insert_tree ex_g ex_chain ex_pb 50 SELF ex_ins ex_host = Ok rs /\ rs <> [] /\
             forallb (insertedb ex_g ex_host ex_ins) rs = true.
Proof. eexists. split; [vm_compute; reflexivity|]. split; [discriminate | vm_compute; reflexivity]. Qed.

(* ---------- an open node must carry a nonterminal ---------- *)
(* A node with children None (open) whose label is not a nonterminal - e.g. the terminals
   "<hr />", "<a b>", "< >", "<", ">", "<a", which only LOOK like nonterminals - makes a tree
   invalid, wherever it sits; so no such tree satisfies `inserted`, and the executable
   acceptance procedures reject it. *)
Lemma open_terminal_not_wf g l i ks : is_nt l = false -> ~ wf_tree g (Node l i true ks).
Proof. intros Hl H. inversion H; subst. congruence. Qed.

Theorem open_terminal_rejected g host ins r p l i ks :
  is_nt l = false -> subtree r p = Some (Node l i true ks) -> ~ inserted g host ins r.
Proof.
  intros Hl Hs (Hwf & _). eapply open_terminal_not_wf; [exact Hl|]. eapply wf_subtree; eassumption.
Qed.

Corollary open_terminal_rejectedb g host ins r p l i ks :
  is_nt l = false -> subtree r p = Some (Node l i true ks) ->
  insertedb g host ins r = false /\ wf_treeb g r = false.
Proof.
  intros Hl Hs. split.
  - destruct (insertedb g host ins r) eqn:E; [|reflexivity].
    apply insertedb_spec in E. exfalso. eapply open_terminal_rejected; eassumption.
  - destruct (wf_treeb g r) eqn:E; [|reflexivity]. apply wf_treeb_spec in E.
    exfalso. eapply open_terminal_not_wf; [exact Hl|]. eapply wf_subtree; eassumption.
Qed.

(* the look-alike terminals of the correspondence grammars are not nonterminals for the model
   of helpers.is_nonterminal:  "<hr />"  "<a b>"  "< >"  "<"  ">"  "<a" *)
Example lookalike_terminals :
  forallb (fun s => negb (is_nt s))
    [[60;104;114;32;47;62]; [60;97;32;98;62]; [60;32;62]; [60]; [62]; [60;97]]%N = true
  /\ is_nt [60;97;62]%N = true.
Proof. split; vm_compute; reflexivity. Qed.

Theorem open_terminal_rejected_all g host ins r p l i ks :
  is_nt l = false -> subtree r p = Some (Node l i true ks) ->
  ~ inserted g host ins r /\ insertedb g host ins r = false /\ wf_treeb g r = false.
Proof.
  intros Hl Hs. split.
  - exact (open_terminal_rejected g host ins r p l i ks Hl Hs).
  - exact (open_terminal_rejectedb g host ins r p l i ks Hl Hs).
Qed.
