(* C13 — proof extension (1): self embedding.

   Every tree returned by compute_self_embeddings that passes add_to_result's filter
   (find_node(ins.id) is not None) satisfies `inserted`, for all grammars, oracles, hosts and
   inserted trees with unique non-fresh ids (`uniq_ids`).  Consequence: insert_tree with any
   method mask WITHOUT the CONTEXT_ADDITION bit returns only `inserted` trees
   (insert_tree_noctx_ok) — the guard of the open finding K_ctx is exact.

   Key invariant (what the first builder listed as missing): the insertion points that
   insert_trees uses for one item (the chosen leaf path or a "higher-up" point) are never nested
   with the place where an earlier item went, because find_higher_up_insertion_points only walks
   up through nodes with at most one child, and the leaf paths of a combination are pairwise
   non-nested (narrow_comparable, two_items). *)
From ISLA Require Import Grammar GrammarFacts PathFacts TreeFacts Insert InsertFacts InsertDirectMore InsertTrackMore.
From Coq Require Import List NArith Bool Arith Lia.
Import ListNotations.

(* ---------- hypotheses on ids ---------- *)
(* ids of host and ins are pairwise different and none is the model's "fresh" id 0
   (Python: ids come from one global counter, fresh nodes never collide with existing ones) *)
Definition uniq_ids (host ins : tree) : Prop :=
  NoDup (ids host ++ ids ins) /\ ~ In 0%N (ids host ++ ids ins).

Lemma NoDup_app_l {A} (l1 l2 : list A) : NoDup (l1 ++ l2) -> NoDup l1.
Proof.
  induction l1 as [|a l1 IH]; simpl; intro H; [constructor|].
  inversion H as [|? ? Hnotin Hnd]; subst. constructor; [|apply IH; assumption].
  intro Hin. apply Hnotin. apply in_or_app. left. assumption.
Qed.

Lemma NoDup_app_r {A} (l1 l2 : list A) : NoDup (l1 ++ l2) -> NoDup l2.
Proof.
  induction l1 as [|a l1 IH]; simpl; intro H; [assumption|].
  inversion H as [|? ? Hnotin Hnd]; subst. apply IH. assumption.
Qed.

Lemma uniq_ids_host host ins : uniq_ids host ins -> NoDup (ids host).
Proof. intros [H _]. eapply NoDup_app_l. eassumption. Qed.

Lemma uniq_ids_ins host ins : uniq_ids host ins -> NoDup (ids ins).
Proof. intros [H _]. eapply NoDup_app_r. eassumption. Qed.

Lemma NoDup_app_disj {A} (l1 l2 : list A) x : NoDup (l1 ++ l2) -> In x l1 -> In x l2 -> False.
Proof.
  induction l1 as [|a l1 IH]; simpl; intros Hnd H1 H2; [contradiction|].
  inversion Hnd as [|? ? Hnotin Hnd']; subst. destruct H1 as [->|H1].
  - apply Hnotin. apply in_or_app. right. assumption.
  - apply IH; assumption.
Qed.

Lemma uniq_ids_disj host ins i : uniq_ids host ins -> In i (ids host) -> In i (ids ins) -> False.
Proof. intros [H _]. apply NoDup_app_disj. assumption. Qed.

Lemma uniq_ids_nz_host host ins : uniq_ids host ins -> ~ In 0%N (ids host).
Proof. intros [_ H] Hin. apply H. apply in_or_app. left. assumption. Qed.

Lemma uniq_ids_nz_ins host ins : uniq_ids host ins -> ~ In 0%N (ids ins).
Proof. intros [_ H] Hin. apply H. apply in_or_app. right. assumption. Qed.

Lemma ids_root t : In (tid t) (ids t).
Proof. apply ids_spec. exists [], t. auto. Qed.

Lemma ids_subtree t p s i : subtree t p = Some s -> In i (ids s) -> In i (ids t).
Proof.
  intros Hs Hi. apply ids_spec in Hi as (q & n & Hq & E). apply ids_spec.
  exists (p ++ q), n. rewrite subtree_app, Hs. auto.
Qed.

Lemma nodesin_ids t : nodesin (fun i _ => In i (ids t)) t.
Proof. intros p n Hp. apply ids_spec. eauto. Qed.

(* ---------- insert_item ---------- *)
Definition simple_root (t : tree) : Prop := is_nt (lbl t) = true \/ kids t = [].

Lemma wf_simple_root g t : wf_tree g t -> simple_root t.
Proof. intro H. inversion H; subst; unfold simple_root; simpl; auto. Qed.

Lemma cwamop_head fuel t : exists r, cwamop fuel t = t :: r.
Proof. destruct fuel; simpl; eauto. Qed.

Lemma cwamop_leaf fuel t : kids t = [] -> cwamop fuel t = [t].
Proof. intro H. destruct fuel; simpl; [reflexivity|]. rewrite H. reflexivity. Qed.

Lemma spc_head t s rest : simple_root t ->
  filter (fun s => is_nt (lbl s)) (cwamop_t t) = s :: rest -> s = t.
Proof.
  unfold cwamop_t. intros [Hnt|Hk] H.
  - destruct (cwamop_head (size t) t) as (r & E). rewrite E in H. simpl in H. rewrite Hnt in H.
    inversion H. reflexivity.
  - rewrite (cwamop_leaf _ _ Hk) in H. simpl in H. destruct (is_nt (lbl t)); inversion H. reflexivity.
Qed.

(* an insertion point used for path ip in rt: ip itself or a higher-up point *)
Definition ipoint (rt : tree) (ip ip' : path) (n : tree) : Prop :=
  subtree rt ip' = Some n /\ prefix ip' ip /\
  forall r, prefix ip' r -> sprefix r ip -> narrow rt r.

Lemma ipoint_self rt ip n : subtree rt ip = Some n -> ipoint rt ip ip n.
Proof.
  intro H. repeat split; [assumption | apply prefix_refl|]. intros r H1 H2. exfalso.
  apply sprefix_iff in H2 as [H2 Hne]. apply Hne. apply prefix_antisym; assumption.
Qed.

Lemma insert_item_inv g pb reach t ip rt news new :
  simple_root t ->
  insert_item g pb reach t ip rt = Ok news -> In new news ->
  exists ipt, subtree rt ip = Some ipt /\
   ((lbl ipt = lbl t /\ replace_at rt ip t = Some new /\ wf_tree g new) \/
    (exists ip' n ch cts ct lp, ipoint rt ip ip' n /\ is_nt (lbl n) = true /\
       In ch (pb (lbl n) (lbl t)) /\ path_to_tree g ch = Ok cts /\ In ct cts /\
       In lp (open_leaves_lbl ct (lbl t)) /\ connect_one g t rt ip' ct lp = Ok new)).
Proof.
  intros Hsr H Hin. unfold insert_item in H.
  destruct (subtree rt ip) as [ipt|] eqn:Hipt; [|discriminate]. exists ipt. split; [reflexivity|].
  destruct (str_eqb (lbl ipt) (lbl t)) eqn:El.
  - left. apply str_eqb_eq in El. apply bind_ok in H as (new' & Hr & H).
    apply bind_ok in H as (u1 & Ha & H). apply bind_ok in H as (u2 & _ & H). inversion H; subst.
    destruct Hin as [<-|[]]. apply assert_ok in Ha. apply wf_treeb_spec in Ha.
    auto using replace_path_ok.
  - right. destruct (filter (fun s => is_nt (lbl s)) (cwamop_t t)) as [|s spc] eqn:Espc; [discriminate|].
    pose proof (spc_head t s spc Hsr Espc) as ->.
    destruct (connect_trees_In _ _ _ _ _ _ _ H Hin) as (ip' & n & ch & cts & ct & lp & Hipts & Hrest).
    exists ip', n, ch, cts, ct, lp. split; [|exact Hrest].
    destruct Hipts as [E|Hhu].
    + inversion E; subst. apply ipoint_self. assumption.
    + destruct (higher_up_spec _ _ _ _ _ _ Hhu) as (Hs & Hsp & Hnar).
      repeat split; [assumption | apply sprefix_prefix; assumption | assumption].
Qed.

(* where the item went, and that everything not nested with the used point is untouched *)
Lemma insert_item_place g pb reach t ip rt news new :
  simple_root t ->
  insert_item g pb reach t ip rt = Ok news -> In new news ->
  exists ip' n x, ipoint rt ip ip' n /\ (exists ipt, subtree rt ip = Some ipt) /\
    prefix ip' x /\ subtree new x = Some t /\
    (forall y, ~ prefix ip' y -> ~ prefix y ip' -> subtree new y = subtree rt y).
Proof.
  intros Hsr H Hin.
  destruct (insert_item_inv _ _ _ _ _ _ _ _ Hsr H Hin)
    as (ipt & Hipt & [(El & Hr & _)|(ip' & n & ch & cts & ct & lp & Hip & Hnt & Hch & Hcts & Hct & Hlp & Hone)]).
  - exists ip, ipt, ip. split; [apply ipoint_self; assumption|]. split; [eauto|].
    split; [apply prefix_refl|]. split; [eapply replace_at_subtree; eassumption|].
    intros y H1 H2. eapply replace_at_disjoint; eassumption.
  - destruct (connect_one_inv _ _ _ _ _ _ _ Hone) as (orig & inst & Horig & Hinst & Hnew & _).
    exists ip', n, (ip' ++ lp). split; [assumption|]. split; [eauto|].
    split; [apply prefix_app|]. split.
    + rewrite (replace_at_below ip' rt inst new lp Hnew). eapply replace_at_subtree; eassumption.
    + intros y H1 H2. eapply replace_at_disjoint; eassumption.
Qed.

Definition pb_start (pb : graph_paths) : Prop :=
  forall A B ch, In ch (pb A B) -> exists rest, ch = A :: rest.

Lemma insert_item_nodesin (S : N -> str -> Prop) g pb reach t ip rt news new :
  zero_ok S -> ((forall i l l', S i l -> S i l') \/ pb_start pb) ->
  simple_root t -> nodesin S rt -> nodesin S t ->
  insert_item g pb reach t ip rt = Ok news -> In new news -> nodesin S new.
Proof.
  intros Hz Hs Hsr Hrt Ht H Hin.
  destruct (insert_item_inv _ _ _ _ _ _ _ _ Hsr H Hin)
    as (ipt & Hipt & [(El & Hr & _)|(ip' & n & ch & cts & ct & lp & Hip & Hnt & Hch & Hcts & Hct & Hlp & Hone)]).
  - eapply nodesin_replace; eassumption.
  - destruct (connect_one_inv _ _ _ _ _ _ _ Hone) as (orig & inst & Horig & Hinst & Hnew & _).
    destruct Hip as (Hn & _). rewrite Hn in Horig. inversion Horig; subst orig.
    eapply nodesin_replace; [exact Hnew | assumption|].
    eapply nodesin_replace; [exact Hinst | | assumption].
    apply nodesin_reroot; [| eapply nodesin_path_to_tree; eassumption].
    pose proof (Hrt _ _ Hn) as Hroot. destruct Hs as [Hfree|Hpb].
    + eapply Hfree. eassumption.
    + destruct (Hpb _ _ _ Hch) as (rest & E). destruct (lbl_path_to_tree _ _ _ _ Hcts Hct) as (rest' & E').
      assert (Elbl : lbl ct = lbl n) by congruence. rewrite Elbl. assumption.
Qed.

Lemma insert_items_nodesin (S : N -> str -> Prop) g pb reach :
  zero_ok S -> ((forall i l l', S i l -> S i l') \/ pb_start pb) ->
  forall items rts rs,
  Forall (fun tp => simple_root (fst tp) /\ nodesin S (fst tp)) items ->
  Forall (nodesin S) rts ->
  insert_items g pb reach items rts = Ok rs -> Forall (nodesin S) rs.
Proof.
  intros Hz Hs. induction items as [|[t ip] items IH]; intros rts rs Hit Hrts H; simpl in H.
  - inversion H; subst. assumption.
  - apply bind_ok in H as (rts1 & H1 & H). inversion Hit as [|? ? [Hsr Ht] Hit']; subst.
    eapply IH; [exact Hit' | | exact H]. apply Forall_forall. intros new Hnew.
    destruct (concatM_In _ _ _ _ H1 Hnew) as (rt & zs & Hrt & Hf & Hz').
    apply in_rev in Hrt. rewrite Forall_forall in Hrts. simpl in Hsr, Ht.
    exact (insert_item_nodesin S g pb reach t ip rt zs new Hz Hs Hsr (Hrts rt Hrt) Ht Hf Hz').
Qed.

(* ---------- nodes reached through single-child nodes are comparable ---------- *)
Lemma narrow_comparable rt : forall d ip' x a b,
  (forall r, prefix ip' r -> sprefix r (ip' ++ d) -> narrow rt r) ->
  subtree rt (ip' ++ d) = Some a -> subtree rt x = Some b -> prefix ip' x ->
  prefix x (ip' ++ d) \/ prefix (ip' ++ d) x.
Proof.
  induction d as [|i d IH]; intros ip' x a b Hnar Ha Hb Hpx.
  - right. rewrite app_nil_r. assumption.
  - destruct Hpx as (e & ->). destruct e as [|j e].
    + left. rewrite app_nil_r. apply prefix_app.
    + rewrite subtree_app in Ha, Hb. destruct (subtree rt ip') as [m|] eqn:Hm; [|discriminate].
      assert (Hk : length (kids m) <= 1).
      { apply (Hnar ip' (prefix_refl _)); [exists i, d; reflexivity | assumption]. }
      simpl in Ha, Hb.
      destruct (nth_error (kids m) i) as [ci|] eqn:Hi; [|discriminate].
      destruct (nth_error (kids m) j) as [cj|] eqn:Hj; [|discriminate].
      assert (Hi' : i < length (kids m)) by (apply nth_error_Some; congruence).
      assert (Hj' : j < length (kids m)) by (apply nth_error_Some; congruence).
      assert (i = j) by lia. subst j. assert (ci = cj) by congruence. subst cj.
      replace (ip' ++ i :: d) with ((ip' ++ [i]) ++ d) by (rewrite <- app_assoc; reflexivity).
      replace (ip' ++ i :: e) with ((ip' ++ [i]) ++ e) by (rewrite <- app_assoc; reflexivity).
      apply (IH (ip' ++ [i]) ((ip' ++ [i]) ++ e) a b).
      * intros r Hr1 Hr2. apply Hnar.
        -- eapply prefix_trans; [apply prefix_app | exact Hr1].
        -- rewrite <- app_assoc in Hr2. exact Hr2.
      * rewrite <- app_assoc, subtree_app, Hm. simpl. rewrite Hi. assumption.
      * rewrite <- app_assoc, subtree_app, Hm. simpl. rewrite Hi. assumption.
      * apply prefix_app.
Qed.

Lemma ipoint_comparable rt ip ip' n x a b :
  ipoint rt ip ip' n -> subtree rt ip = Some a -> subtree rt x = Some b -> prefix ip' x ->
  prefix x ip \/ prefix ip x.
Proof.
  intros (_ & (d & ->) & Hnar) Ha Hb Hp. eapply narrow_comparable; eassumption.
Qed.

(* below a childless node there is nothing *)
Lemma leaf_below t p q n m : subtree t p = Some n -> kids n = [] -> subtree t q = Some m ->
  prefix p q -> q = p.
Proof.
  intros Hn Hk Hm (e & ->). rewrite subtree_app, Hn in Hm. destruct e as [|j e]; [apply app_nil_r|].
  simpl in Hm. rewrite Hk in Hm. destruct j; discriminate.
Qed.

(* ---------- two items: both trees survive ---------- *)
Lemma two_items g pb reach t1 p1 t2 p2 set rs it :
  simple_root t1 -> simple_root t2 ->
  (exists n2, subtree set p2 = Some n2 /\ kids n2 = []) ->
  ~ prefix p1 p2 -> ~ prefix p2 p1 ->
  insert_items g pb reach [(t1, p1); (t2, p2)] [set] = Ok rs -> In it rs ->
  exists x1 x2, subtree it x1 = Some t1 /\ subtree it x2 = Some t2.
Proof.
  intros Hs1 Hs2 (n2 & Hn2 & Hk2) Hn12 Hn21 H Hin. simpl in H.
  apply bind_ok in H as (rts1 & H1 & H). apply bind_ok in H as (rts2 & H2 & H).
  inversion H; subst rts2; clear H.
  destruct (concatM_In _ _ _ _ H2 Hin) as (rt1 & zs2 & Hrt1 & Hf2 & Hz2). apply in_rev in Hrt1.
  destruct (concatM_In _ _ _ _ H1 Hrt1) as (rt0 & zs1 & Hrt0 & Hf1 & Hz1).
  destruct Hrt0 as [<-|[]].
  destruct (insert_item_place _ _ _ _ _ _ _ _ Hs1 Hf1 Hz1)
    as (ip1 & m1 & x1 & Hip1 & (ipt1 & Hipt1) & Hpx1 & Hx1 & Hout1).
  (* the point used for item 1 is not nested with p2 *)
  assert (Hd1 : ~ prefix ip1 p2).
  { intro Hp. destruct (ipoint_comparable _ _ _ _ _ _ _ Hip1 Hipt1 Hn2 Hp); contradiction. }
  assert (Hd2 : ~ prefix p2 ip1).
  { intro Hp. apply Hn21. eapply prefix_trans; [exact Hp|]. apply Hip1. }
  assert (Hrt1p2 : subtree rt1 p2 = Some n2) by (rewrite (Hout1 p2 Hd1 Hd2); assumption).
  destruct (insert_item_place _ _ _ _ _ _ _ _ Hs2 Hf2 Hz2)
    as (ip2 & m2 & x2 & Hip2 & _ & Hpx2 & Hx2 & Hout2).
  assert (Hip2p : prefix ip2 p2) by apply Hip2.
  exists x1, x2. split; [|assumption].
  rewrite Hout2; [assumption| |].
  - intro Hp. destruct (ipoint_comparable _ _ _ _ _ _ _ Hip2 Hrt1p2 Hx1 Hp) as [Hc|Hc].
    + apply Hd1. eapply prefix_trans; eassumption.
    + pose proof (leaf_below _ _ _ _ _ Hrt1p2 Hk2 Hx1 Hc) as ->. contradiction.
  - intro Hp. apply Hd1. eapply prefix_trans; [exact Hpx1|]. eapply prefix_trans; eassumption.
Qed.

(* ---------- insert_trees with two trees ---------- *)
Lemma combos_loop_In g pb reach maxn into : forall cs acc rs t,
  combos_loop g pb reach maxn into cs acc = Ok rs -> In t rs ->
  In t acc \/ exists c rs', In c cs /\ insert_items g pb reach c [into] = Ok rs' /\ In t rs'.
Proof.
  induction cs as [|c cs IH]; intros acc rs t H Hin; simpl in H.
  - inversion H; subst. left. assumption.
  - destruct (Nat.leb maxn (length acc)); [inversion H; subst; left; assumption|].
    apply bind_ok in H as (rs' & Hc & H). destruct (IH _ _ _ H Hin) as [Hacc|(c' & rs'' & Hc' & Hi & Ht)].
    + apply in_app_or in Hacc as [Hacc|Hnew]; [left; assumption|].
      right. exists c, rs'. split; [left; reflexivity | auto].
    + right. exists c', rs''. split; [right; assumption | auto].
Qed.

Lemma product_Forall2 {A} : forall (ls : list (list A)) ps,
  In ps (product ls) -> Forall2 (fun p l => In p l) ps ls.
Proof.
  induction ls as [|l ls IH]; intros ps H; simpl in H.
  - destruct H as [<-|[]]. constructor.
  - apply in_flat_map in H as (x & Hx & H). apply in_map_iff in H as (ps' & <- & Hps').
    constructor; [assumption | apply IH; assumption].
Qed.

Lemma pips_spec reach into t p :
  In p (pips reach into t) -> exists n, subtree into p = Some n /\ kids n = [].
Proof.
  unfold pips. intro H. apply in_map_iff in H as ([q n] & <- & Hin).
  apply filter_In in Hin as [Hn Hf]. apply nodes_spec in Hn. apply andb_true_iff in Hf as [Hl _].
  exists n. split; [assumption|]. unfold is_leaf in Hl. simpl in Hl. destruct (kids n); [reflexivity | discriminate].
Qed.

Lemma insert_trees2_In g pb reach maxn t1 t2 into rs t :
  insert_trees g pb reach maxn [t1; t2] into = Ok rs -> In t rs ->
  exists c rs', insert_items g pb reach c [into] = Ok rs' /\ In t rs' /\
    ((exists p1, c = [(t1, p1)]) \/
     (exists p2, c = [(t2, p2)] /\ pips reach into t1 = []) \/
     (exists p1 p2, c = [(t1, p1); (t2, p2)] /\ In p2 (pips reach into t2) /\ nested p1 p2 = false)).
Proof.
  unfold insert_trees. intros H Hin.
  destruct (combos_loop_In _ _ _ _ _ _ _ _ _ H Hin) as [[]|(c & rs' & Hc & Hi & Ht)].
  exists c, rs'. split; [assumption|]. split; [assumption|].
  apply filter_In in Hc as [Hc Hok]. apply in_map_iff in Hc as (ps & <- & Hps).
  apply product_Forall2 in Hps. cbn [map] in Hps, Hok |- *.
  remember (pips reach into t1) as P1 eqn:E1. remember (pips reach into t2) as P2 eqn:E2.
  destruct P1 as [|a1 P1], P2 as [|a2 P2]; cbn [filter snd fst map] in Hps, Hok |- *.
  - inversion Hps; subst. simpl in Hok. discriminate.
  - inversion Hps as [|p2 ? ? ? Hp2 Hps']; subst. inversion Hps'; subst.
    right. left. exists p2. split; reflexivity.
  - inversion Hps as [|p1 ? ? ? Hp1 Hps']; subst. inversion Hps'; subst.
    left. exists p1. reflexivity.
  - inversion Hps as [|p1 ? ? ? Hp1 Hps']; subst. inversion Hps' as [|p2 ? ? ? Hp2 Hps'']; subst.
    inversion Hps''; subst. right. right. exists p1, p2. split; [reflexivity|]. split; [exact Hp2|].
    simpl in Hok. rewrite !andb_true_r in Hok. apply andb_true_iff in Hok as [Hok _].
    apply negb_true_iff in Hok. exact Hok.
Qed.

Lemma nested_false p q : nested p q = false -> ~ prefix p q /\ ~ prefix q p.
Proof.
  unfold nested. intro H. apply orb_false_iff in H as [H H2]. apply orb_false_iff in H as [_ H1].
  split; intro Hp; apply prefixb_spec in Hp; congruence.
Qed.

(* ---------- compute_self_embeddings ---------- *)
Lemma self_loop_In g maxn host cp : forall insts acc rs t,
  self_loop g maxn host cp insts acc = Ok rs -> In t rs ->
  In t acc \/ exists it orig, In it insts /\ subtree host cp = Some orig /\ lbl it = lbl orig /\
     replace_at host cp it = Some t /\ wf_tree g t /\ ids_kept host t = true.
Proof.
  induction insts as [|it insts IH]; intros acc rs t H Hin; simpl in H.
  - inversion H; subst. left. assumption.
  - apply bind_ok in H as (u0 & _ & H).
    destruct (Nat.leb maxn (length acc)); [inversion H; subst; left; assumption|].
    destruct (subtree host cp) as [orig|] eqn:Horig; [|discriminate].
    apply bind_ok in H as (u1 & Hl & H). apply bind_ok in H as (new & Hr & H).
    apply bind_ok in H as (u2 & Hw & H). apply bind_ok in H as (u3 & Hk & H).
    apply assert_ok in Hl, Hw, Hk. apply str_eqb_eq in Hl. apply wf_treeb_spec in Hw.
    apply replace_path_ok in Hr.
    destruct (IH _ _ _ H Hin) as [Hacc|(it' & orig' & Hit' & Ho' & Hrest)].
    + apply put_In in Hacc as [Hacc| ->]; [left; assumption|].
      right. exists it, orig. split; [left; reflexivity|]. auto.
    + right. exists it', orig'. split; [right; assumption|]. auto.
Qed.

Theorem self_embeddings_ok g pb reach maxn cp ins host r t :
  wf_tree g ins -> uniq_ids host ins ->
  self_embeddings g pb reach maxn cp ins host = Ok r -> In t r ->
  contains t ins = true ->
  inserted g host ins t.
Proof.
  intros Hins Hu H Hin Hcont. unfold self_embeddings in H.
  destruct (subtree host cp) as [cur|] eqn:Hcur; [|discriminate].
  destruct (negb (is_nt (lbl cur)) || negb (reach (lbl cur) (lbl cur))) eqn:Hguard;
    [inversion H; subst; contradiction|].
  apply orb_false_iff in Hguard as [Hnt _]. apply negb_false_iff in Hnt.
  apply bind_ok in H as (sets & Hsets & H). apply bind_ok in H as (insts & Hinsts & H).
  destruct (self_loop_In _ _ _ _ _ _ _ _ H Hin) as [[]|(it & orig & Hit & Ho & Hl & Hr & Hw & Hk)].
  rewrite Hcur in Ho. inversion Ho; subst orig; clear Ho.
  destruct (concatM_In _ _ _ _ Hinsts Hit) as (set & zs & Hset & Hf & Hz).
  destruct (concatM_In _ _ _ _ Hsets Hset) as (ch & cts & Hch & Hcts & Hct).
  destruct (insert_trees2_In _ _ _ _ _ _ _ _ _ Hf Hz) as (c & rs' & Hi & Hitin & Hcase).
  assert (Hsr1 : simple_root cur) by (left; assumption).
  assert (Hsr2 : simple_root ins) by (eapply wf_simple_root; eassumption).
  (* id tracking for the cases where one of the two trees was dropped *)
  assert (Htrack : forall (P : N -> Prop) items, P 0%N ->
            Forall (fun tp => simple_root (fst tp) /\ nodesin (fun i _ => P i) (fst tp)) items ->
            insert_items g pb reach items [set] = Ok rs' -> nodesin (fun i _ => P i) it).
  { intros P items HP0 Hitems Hrun.
    assert (HF : Forall (nodesin (fun i _ => P i)) rs').
    { eapply (insert_items_nodesin (fun i _ => P i)); [intro; exact HP0 | left; auto | exact Hitems | | exact Hrun].
      constructor; [|constructor]. eapply (nodesin_path_to_tree (fun i _ => P i)); [intro; exact HP0 | eassumption | eassumption]. }
    rewrite Forall_forall in HF. apply HF. assumption. }
  destruct Hcase as [(p1 & ->)|[(p2 & -> & _)|(p1 & p2 & -> & Hp2 & Hnest)]].
  - (* only cur was inserted: the id of ins cannot be in t *)
    exfalso. unfold contains in Hcont. apply has_id_spec in Hcont as (q & m & Hq & Em).
    assert (Hnit : nodesin (fun i _ => i = 0%N \/ In i (ids cur)) it).
    { apply (Htrack (fun i => i = 0%N \/ In i (ids cur)) [(cur, p1)]); [left; reflexivity| |assumption].
      constructor; [|constructor]. split; [assumption|]. intros p n Hp. right. apply ids_spec. eauto. }
    destruct (prefix_dec cp q) as [[q' ->]|Hnp].
    + rewrite (replace_at_below cp host it t q' Hr) in Hq. destruct (Hnit _ _ Hq) as [E|E]; rewrite Em in E.
      * apply (uniq_ids_nz_ins _ _ Hu). rewrite <- E. apply ids_root.
      * eapply (uniq_ids_disj host ins (tid ins)); [eassumption| |apply ids_root].
        eapply ids_subtree; eassumption.
    + destruct (replace_at_outside_inv cp host it t q m Hr Hnp Hq) as (n & Hn & En & _).
      eapply (uniq_ids_disj host ins (tid ins)); [eassumption| |apply ids_root].
      apply ids_spec. exists q, n. split; [assumption | congruence].
  - (* only ins was inserted: the id of cur cannot be in t, but ids_kept holds *)
    exfalso. rewrite ids_kept_spec in Hk. destruct (Hk cp cur Hcur) as (q & m & Hq & Em).
    assert (Hnit : nodesin (fun i _ => i = 0%N \/ In i (ids ins)) it).
    { apply (Htrack (fun i => i = 0%N \/ In i (ids ins)) [(ins, p2)]); [left; reflexivity| |assumption].
      constructor; [|constructor]. split; [assumption|]. intros p n Hp. right. apply ids_spec. eauto. }
    assert (Hcurid : In (tid cur) (ids host)) by (apply ids_spec; eauto).
    destruct (prefix_dec cp q) as [[q' ->]|Hnp].
    + rewrite (replace_at_below cp host it t q' Hr) in Hq. destruct (Hnit _ _ Hq) as [E|E]; rewrite Em in E.
      * apply (uniq_ids_nz_host _ _ Hu). rewrite <- E. assumption.
      * eapply (uniq_ids_disj host ins (tid cur)); eassumption.
    + destruct (replace_at_outside_inv cp host it t q m Hr Hnp Hq) as (n & Hn & En & _).
      destruct (ids_unique host q cp n cur (uniq_ids_host _ _ Hu) Hn Hcur ltac:(congruence)) as [-> _].
      apply Hnp. apply prefix_refl.
  - (* both were inserted *)
    apply nested_false in Hnest as [Hn12 Hn21].
    destruct (two_items _ _ _ _ _ _ _ _ _ _ Hsr1 Hsr2 (pips_spec _ _ _ _ Hp2) Hn12 Hn21 Hi Hitin)
      as (x1 & x2 & Hx1 & Hx2).
    repeat split.
    + assumption.
    + eapply replace_at_root; eassumption.
    + intros p n Hp. destruct (prefix_dec cp p) as [[p' ->]|Hnp].
      * rewrite subtree_app, Hcur in Hp. exists (cp ++ x1 ++ p'), n. split; [|auto].
        rewrite (replace_at_below cp host it t _ Hr), subtree_app, Hx1. assumption.
      * destruct (replace_at_keeps_outside cp host it t p n Hr Hnp Hp) as (m & Hm & E1 & E2).
        exists p, m. auto.
    + exists (cp ++ x2). rewrite (replace_at_below cp host it t _ Hr). assumption.
Qed.

(* ---------- insert_tree for masks without CONTEXT_ADDITION ---------- *)
Lemma add_all_In_filter g host ins : forall new acc rs t,
  add_all g host ins new acc = Ok rs -> In t rs ->
  In t acc \/ (In t new /\ contains t ins = true).
Proof.
  induction new as [|x new IH]; intros acc rs t H Hin; simpl in H.
  - inversion H; subst. left. assumption.
  - apply bind_ok in H as (u1 & _ & H). apply bind_ok in H as (u2 & _ & H).
    destruct (IH _ _ _ H Hin) as [Hacc|[Hnew Hc]]; [|right; split; [right; assumption | assumption]].
    destruct (contains x ins) eqn:Hc; simpl in Hacc; [|left; assumption].
    destruct (negb (existsb (struct_eqb x) acc)); [|left; assumption].
    apply in_app_or in Hacc as [Hacc|[<-|[]]]; [left; assumption|].
    right. split; [left; reflexivity | assumption].
Qed.

Theorem insert_tree_noctx_ok g chain pb maxn m ins host rs t :
  closed_g g -> chain_ok chain -> wf_tree g host -> wf_tree g ins -> uniq_ids host ins ->
  K_ctx m = false ->
  insert_tree g chain pb maxn m ins host = Ok rs -> In t rs ->
  inserted g host ins t.
Proof.
  intros Hc Hch Hhost Hins Hu HK. unfold insert_tree, K_ctx in *.
  assert (Hgen : forall cps acc rs, (forall x, In x acc -> inserted g host ins x) ->
            insert_loop g chain pb maxn m ins host cps acc = Ok rs ->
            forall x, In x rs -> inserted g host ins x).
  { induction cps as [|cp cps IH]; intros acc rs0 Hacc H x Hx; simpl in H.
    - inversion H; subst. auto.
    - destruct (Nat.leb maxn (length acc)); [inversion H; subst; auto|]. rewrite HK in H.
      apply bind_ok in H as (acc1 & H1 & H). apply bind_ok in H as (acc2 & H2 & H).
      simpl in H. refine (IH acc2 rs0 _ H x Hx).
      assert (Hacc1 : forall y, In y acc1 -> inserted g host ins y).
      { destruct (has_method m DIRECT); [|inversion H1; subst; assumption].
        apply bind_ok in H1 as (r & Hd & Ha). intros y Hy.
        destruct (add_all_In _ _ _ _ _ _ _ Ha Hy) as [Hy'|Hy']; [auto|]. eapply direct_ok; eassumption. }
      destruct (has_method m SELF); [|inversion H2; subst; assumption].
      apply bind_ok in H2 as (r & Hs & Ha). intros y Hy.
      destruct (add_all_In_filter _ _ _ _ _ _ _ Ha Hy) as [Hy'|[Hy' Hcont]]; [auto|].
      eapply self_embeddings_ok; eassumption. }
  intros H Hin. eapply (Hgen (positions host) [] rs); [intros x []| exact H | exact Hin].
Qed.

(* executable check of uniq_ids for examples *)
Fixpoint nodupb (l : list N) : bool :=
  match l with [] => true | x :: l' => negb (existsb (N.eqb x) l') && nodupb l' end.

Lemma nodupb_spec l : nodupb l = true -> NoDup l.
Proof.
  induction l as [|x l IH]; simpl; intro H; [constructor|]. apply andb_true_iff in H as [H1 H2].
  constructor; [|apply IH; assumption]. intro Hin. apply negb_true_iff in H1.
  assert (existsb (N.eqb x) l = true) by (apply existsb_exists; exists x; split; [assumption | apply N.eqb_refl]).
  congruence.
Qed.

Definition uniq_idsb (host ins : tree) : bool :=
  nodupb (ids host ++ ids ins) && negb (existsb (N.eqb 0) (ids host ++ ids ins)).

Lemma uniq_idsb_spec host ins : uniq_idsb host ins = true -> uniq_ids host ins.
Proof.
  unfold uniq_idsb, uniq_ids. intro H. apply andb_true_iff in H as [H1 H2].
  split; [apply nodupb_spec; assumption|]. intro Hin. apply negb_true_iff in H2.
  assert (existsb (N.eqb 0) (ids host ++ ids ins) = true)
    by (apply existsb_exists; exists 0%N; split; [assumption | reflexivity]).
  congruence.
Qed.

Example ex_uniq : uniq_ids ex_host ex_ins.
Proof. apply uniq_idsb_spec. vm_compute. reflexivity. Qed.

(* non-vacuity: masks 2 and 3 return results on the example, all accepted *)
Example noctx_nonvacuous :
  K_ctx 3 = false /\
  exists rs, insert_tree ex_g ex_chain ex_pb 50 3 ex_ins ex_host = Ok rs /\ 2 <= length rs.
Proof. split; [reflexivity|]. eexists. split; [vm_compute; reflexivity|]. simpl. lia. Qed.
