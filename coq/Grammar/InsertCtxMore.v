(* C13 — proof extension (2): context addition is lossy but not more than that.

   inserted_lossy g host ins r :=  wf_tree g r /\ lbl r = lbl host
        /\ every host node occurs in r with the same id and label
        /\ the ROOT of ins occurs in r with the same id and label.
   (= `inserted` with the last conjunct weakened from "ins is a subtree".)

   Theorems:
     inserted_lossyb_spec        the boolean used by the check decides inserted_lossy
     context_additions_lossy     every tree of compute_context_additions that passes
                                 add_to_result satisfies inserted_lossy
     insert_tree_lossy_ok        insert_tree with ANY method mask returns only inserted_lossy trees
   Together with insert_tree_noctx_ok and context_refuted this characterises the open finding
   K_ctx exactly: results are `inserted_lossy` always, `inserted` when the mask has no
   CONTEXT_ADDITION bit, and there is a CONTEXT_ADDITION result that is not `inserted`.

   Additional oracle hypothesis: pb_start (paths_between(A, B) returns chains starting with A).
   The proof does not follow the tree surgery; it tracks (id, label) pairs: every node of a tree
   built by insert_trees carries the fresh id 0 or an (id, label) pair of host / ins
   (connect_trees re-uses the id of the replaced node together with its label, by pb_start), and
   the filters of compute_context_additions / add_to_result look the ids up. *)
From ISLA Require Import Grammar GrammarFacts PathFacts TreeFacts Insert InsertFacts
     InsertDirectMore InsertTrackMore InsertSelfMore.
From Coq Require Import List NArith Bool Arith Lia.
Import ListNotations.

Definition inserted_lossy (g : grammar) (host ins r : tree) : Prop :=
  wf_tree g r /\ lbl r = lbl host /\
  (forall p n, subtree host p = Some n ->
     exists q m, subtree r q = Some m /\ tid m = tid n /\ lbl m = lbl n) /\
  exists q m, subtree r q = Some m /\ tid m = tid ins /\ lbl m = lbl ins.

Theorem inserted_lossyb_spec g host ins r :
  inserted_lossyb g host ins r = true <-> inserted_lossy g host ins r.
Proof.
  unfold inserted_lossyb, inserted_lossy.
  rewrite !andb_true_iff, wf_treeb_spec, str_eqb_eq, keeps_nodes_spec, has_node_spec. tauto.
Qed.

Lemma inserted_lossy_of_inserted g host ins r : inserted g host ins r -> inserted_lossy g host ins r.
Proof.
  intros (Hw & Hl & Hk & p & Hp). repeat split; try assumption. exists p, ins. auto.
Qed.

(* ---------- root label is kept by insert_trees ---------- *)
Lemma reroot_subtree ct i lp n :
  subtree ct lp = Some n ->
  exists n', subtree (Node (lbl ct) i (opn ct) (kids ct)) lp = Some n' /\ lbl n' = lbl n.
Proof.
  destruct lp as [|j lp]; simpl; intro H.
  - inversion H; subst. eexists. split; reflexivity.
  - destruct ct as [l i0 o ks]. simpl in *. eauto.
Qed.

Lemma insert_item_root g pb reach t ip rt news new :
  pb_start pb -> simple_root t ->
  insert_item g pb reach t ip rt = Ok news -> In new news -> lbl new = lbl rt.
Proof.
  intros Hpb Hsr H Hin.
  destruct (insert_item_inv _ _ _ _ _ _ _ _ Hsr H Hin)
    as (ipt & Hipt & [(El & Hr & _)|(ip' & n & ch & cts & ct & lp & Hip & Hnt & Hch & Hcts & Hct & Hlp & Hone)]).
  - eapply replace_at_root; [exact Hr | exact Hipt | congruence].
  - destruct (connect_one_inv _ _ _ _ _ _ _ Hone) as (orig & inst & Horig & Hinst & Hnew & _).
    destruct (open_leaves_lbl_spec _ _ _ Hlp) as (leaf & Hleaf & _ & Lleaf).
    destruct (reroot_subtree ct (tid orig) lp leaf Hleaf) as (leaf' & Hleaf' & Lleaf').
    assert (Linst : lbl inst = lbl ct).
    { rewrite (replace_at_root lp _ t inst leaf' Hinst Hleaf'); [reflexivity | congruence]. }
    destruct Hip as (Hn & _). rewrite Hn in Horig. inversion Horig; subst orig.
    destruct (Hpb _ _ _ Hch) as (rest & E). destruct (lbl_path_to_tree _ _ _ _ Hcts Hct) as (rest' & E').
    assert (Elbl : lbl ct = lbl n) by congruence.
    eapply replace_at_root; [exact Hnew | exact Hn | congruence].
Qed.

Lemma insert_items_root g pb reach l :
  pb_start pb ->
  forall items rts rs,
  Forall (fun tp => simple_root (fst tp)) items ->
  Forall (fun rt => lbl rt = l) rts ->
  insert_items g pb reach items rts = Ok rs -> Forall (fun rt => lbl rt = l) rs.
Proof.
  intros Hpb. induction items as [|[t ip] items IH]; intros rts rs Hit Hrts H; simpl in H.
  - inversion H; subst. assumption.
  - apply bind_ok in H as (rts1 & H1 & H). inversion Hit as [|? ? Hsr Hit']; subst.
    eapply IH; [exact Hit' | | exact H]. apply Forall_forall. intros new Hnew.
    destruct (concatM_In _ _ _ _ H1 Hnew) as (rt & zs & Hrt & Hf & Hz').
    apply in_rev in Hrt. rewrite Forall_forall in Hrts. simpl in Hsr.
    rewrite (insert_item_root g pb reach t ip rt zs new Hpb Hsr Hf Hz'). apply Hrts. assumption.
Qed.

(* ---------- general inversion of insert_trees ---------- *)
Lemma insert_trees_In g pb reach maxn ts into rs t :
  insert_trees g pb reach maxn ts into = Ok rs -> In t rs ->
  exists c rs', insert_items g pb reach c [into] = Ok rs' /\ In t rs' /\
                forall tp, In tp c -> In (fst tp) ts.
Proof.
  unfold insert_trees. intros H Hin.
  destruct (combos_loop_In _ _ _ _ _ _ _ _ _ H Hin) as [[]|(c & rs' & Hc & Hi & Ht)].
  exists c, rs'. split; [assumption|]. split; [assumption|].
  apply filter_In in Hc as [Hc _]. apply in_map_iff in Hc as (ps & <- & _).
  intros [t0 p0] Htp. apply in_combine_l in Htp. apply in_map_iff in Htp as ([t1 l1] & E & Hpp).
  simpl in E. subst t1. apply filter_In in Hpp as [Hpp _].
  apply in_map_iff in Hpp as (t2 & E2 & Ht2). inversion E2; subst. exact Ht2.
Qed.

Lemma insert_trees_track (S : N -> str -> Prop) g pb reach maxn ts into rs t :
  zero_ok S -> pb_start pb ->
  Forall (fun x => simple_root x /\ nodesin S x) ts -> nodesin S into ->
  insert_trees g pb reach maxn ts into = Ok rs -> In t rs ->
  nodesin S t /\ lbl t = lbl into.
Proof.
  intros Hz Hpb Hts Hinto H Hin.
  destruct (insert_trees_In _ _ _ _ _ _ _ _ H Hin) as (c & rs' & Hi & Ht & Hc).
  rewrite Forall_forall in Hts. split.
  - assert (HF : Forall (nodesin S) rs').
    { eapply (insert_items_nodesin S); [exact Hz | right; exact Hpb | | | exact Hi].
      - apply Forall_forall. intros tp Htp. apply Hts. apply Hc. assumption.
      - constructor; [assumption | constructor]. }
    rewrite Forall_forall in HF. apply HF. assumption.
  - assert (HF : Forall (fun rt => lbl rt = lbl into) rs').
    { eapply (insert_items_root g pb reach); [exact Hpb | | | exact Hi].
      - apply Forall_forall. intros tp Htp. apply (Hts (fst tp)). apply Hc. assumption.
      - constructor; [reflexivity | constructor]. }
    rewrite Forall_forall in HF. apply HF. assumption.
Qed.

(* ---------- (id, label) pairs of host and ins ---------- *)
Definition pair_in (t : tree) (i : N) (l : str) : Prop :=
  exists p n, subtree t p = Some n /\ tid n = i /\ lbl n = l.

Definition pairS (host ins : tree) (i : N) (l : str) : Prop :=
  i = 0%N \/ pair_in host i l \/ pair_in ins i l.

Lemma nodesin_pair_in t : nodesin (pair_in t) t.
Proof. intros p n Hp. exists p, n. auto. Qed.

Lemma pair_in_ids t i l : pair_in t i l -> In i (ids t).
Proof. intros (p & n & Hp & E & _). apply ids_spec. eauto. Qed.

(* a node of r carrying a host id has that host node's label; same for the root id of ins *)
Lemma pairS_host host ins r q m p n :
  uniq_ids host ins -> nodesin (pairS host ins) r ->
  subtree r q = Some m -> subtree host p = Some n -> tid m = tid n -> lbl m = lbl n.
Proof.
  intros Hu Hr Hq Hp E. assert (Hid : In (tid n) (ids host)) by (apply ids_spec; eauto).
  destruct (Hr _ _ Hq) as [E0|[(p' & n' & Hp' & E1 & E2)|Hins]].
  - exfalso. apply (uniq_ids_nz_host _ _ Hu). replace 0%N with (tid n) by congruence. assumption.
  - destruct (ids_unique host p' p n' n (uniq_ids_host _ _ Hu) Hp' Hp ltac:(congruence)) as [_ ->].
    congruence.
  - exfalso. apply pair_in_ids in Hins. rewrite E in Hins. eapply uniq_ids_disj; eassumption.
Qed.

Lemma pairS_ins_root host ins r q m :
  uniq_ids host ins -> nodesin (pairS host ins) r ->
  subtree r q = Some m -> tid m = tid ins -> lbl m = lbl ins.
Proof.
  intros Hu Hr Hq E.
  destruct (Hr _ _ Hq) as [E0|[Hhost|(p' & n' & Hp' & E1 & E2)]].
  - exfalso. apply (uniq_ids_nz_ins _ _ Hu). replace 0%N with (tid ins) by congruence. apply ids_root.
  - exfalso. apply pair_in_ids in Hhost. rewrite E in Hhost.
    eapply uniq_ids_disj; [eassumption | eassumption | apply ids_root].
  - destruct (ids_unique ins p' [] n' ins (uniq_ids_ins _ _ Hu) Hp' eq_refl ltac:(congruence)) as [_ ->].
    congruence.
Qed.

(* what the filters of compute_context_additions / add_to_result establish, given the tracking *)
Lemma lossy_from_tracking g host ins t :
  uniq_ids host ins -> nodesin (pairS host ins) t ->
  wf_tree g t -> lbl t = lbl host -> ids_kept host t = true -> contains t ins = true ->
  inserted_lossy g host ins t.
Proof.
  intros Hu Ht Hw Hl Hk Hc. repeat split; try assumption.
  - intros p n Hp. rewrite ids_kept_spec in Hk. destruct (Hk p n Hp) as (q & m & Hq & E).
    exists q, m. repeat split; try assumption. eapply pairS_host; eassumption.
  - unfold contains in Hc. apply has_id_spec in Hc as (q & m & Hq & E).
    exists q, m. repeat split; try assumption. eapply pairS_ins_root; eassumption.
Qed.

(* ---------- compute_context_additions ---------- *)
Lemma ctx_collect_sub host into cp cur e :
  subtree host cp = Some cur ->
  In e (ctx_collect host into cp cur) -> subtree host (fst e) = Some (snd e).
Proof.
  intros Hcur. unfold ctx_collect.
  assert (Hgen : forall l acc, (forall x, In x l -> subtree host (fst x) = Some (snd x)) ->
            (forall x, In x acc -> subtree host (fst x) = Some (snd x)) ->
            forall x, In x (fold_left (fun acc pt =>
               if (match fst pt with [] => false | _ => true end)
                  && negb (existsb (fun e => nested (fst e) (fst pt)) acc)
                  && negb (has_id into (tid (snd pt)))
               then acc ++ [pt] else acc) l acc) -> subtree host (fst x) = Some (snd x)).
  { induction l as [|pt l IH]; intros acc Hl Hacc x Hx; simpl in Hx; [auto|].
    eapply IH; [| |exact Hx].
    - intros y Hy. apply Hl. right. assumption.
    - intros y Hy. destruct (_ && _ && _) in Hy; [|auto].
      apply in_app_or in Hy as [Hy|[<-|[]]]; [auto|]. apply Hl. left. reflexivity. }
  apply Hgen.
  - intros [p n] Hx. apply nodes_spec in Hx. exact Hx.
  - intros x [<-|[]]. exact Hcur.
Qed.

Theorem context_additions_lossy g pb reach maxn cp ins host r t :
  pb_start pb -> wf_tree g host -> wf_tree g ins -> uniq_ids host ins ->
  context_additions g pb reach maxn cp ins host = Ok r -> In t r ->
  wf_tree g t -> contains t ins = true ->
  inserted_lossy g host ins t.
Proof.
  intros Hpb Hhost Hins Hu H Hin Hw Hcont. unfold context_additions in H.
  destruct (subtree host cp) as [cur|] eqn:Hcur; [|discriminate].
  destruct (negb (str_eqb (lbl cur) (lbl ins))) eqn:Hl; [inversion H; subst; contradiction|].
  apply negb_false_iff in Hl. apply str_eqb_eq in Hl.
  apply bind_ok in H as (into & Hinto & H). apply replace_path_ok in Hinto.
  apply bind_ok in H as (rs & Hrs & H). inversion H; subst r; clear H.
  apply filter_In in Hin as [Hin Hf]. apply andb_true_iff in Hf as [_ Hk].
  assert (Hz : zero_ok (pairS host ins)) by (intro l; left; reflexivity).
  assert (Hhost_in : nodesin (pairS host ins) host).
  { eapply nodesin_weaken; [|apply nodesin_pair_in]. intros i l Hp. right. left. assumption. }
  assert (Hins_in : nodesin (pairS host ins) ins).
  { eapply nodesin_weaken; [|apply nodesin_pair_in]. intros i l Hp. right. right. assumption. }
  assert (Hinto_in : nodesin (pairS host ins) into) by (eapply nodesin_replace; eassumption).
  assert (Hsubs : Forall (fun x => simple_root x /\ nodesin (pairS host ins) x)
                         (map snd (ctx_collect host into cp cur))).
  { apply Forall_forall. intros x Hx. apply in_map_iff in Hx as (e & <- & He).
    pose proof (ctx_collect_sub _ _ _ _ _ Hcur He) as Hsub. split.
    - eapply wf_simple_root. exact (wf_subtree g (fst e) host (snd e) Hhost Hsub).
    - exact (nodesin_subtree _ host (fst e) (snd e) Hhost_in Hsub). }
  destruct (insert_trees_track _ _ _ _ _ _ _ _ _ Hz Hpb Hsubs Hinto_in Hrs Hin) as [Ht Hlt].
  apply lossy_from_tracking; try assumption.
  rewrite Hlt. eapply replace_at_root; [exact Hinto | exact Hcur | congruence].
Qed.

(* ---------- insert_tree, any method mask ---------- *)
Lemma add_all_In_checked g host ins : forall new acc rs t,
  add_all g host ins new acc = Ok rs -> In t rs ->
  In t acc \/ (In t new /\ contains t ins = true /\ wf_tree g t).
Proof.
  induction new as [|x new IH]; intros acc rs t H Hin; simpl in H.
  - inversion H; subst. left. assumption.
  - apply bind_ok in H as (u1 & Hw & H). apply bind_ok in H as (u2 & _ & H).
    apply assert_ok in Hw. apply wf_treeb_spec in Hw.
    destruct (IH _ _ _ H Hin) as [Hacc|(Hnew & Hc & Hwt)]; [|right; split; [right; assumption | auto]].
    destruct (contains x ins) eqn:Hc; simpl in Hacc; [|left; assumption].
    destruct (negb (existsb (struct_eqb x) acc)); [|left; assumption].
    apply in_app_or in Hacc as [Hacc|[<-|[]]]; [left; assumption|].
    right. split; [left; reflexivity | auto].
Qed.

Theorem insert_tree_lossy_ok g chain pb maxn m ins host rs t :
  closed_g g -> chain_ok chain -> pb_start pb ->
  wf_tree g host -> wf_tree g ins -> uniq_ids host ins ->
  insert_tree g chain pb maxn m ins host = Ok rs -> In t rs ->
  inserted_lossy g host ins t.
Proof.
  intros Hc Hch Hpb Hhost Hins Hu. unfold insert_tree.
  assert (Hgen : forall cps acc rs, (forall x, In x acc -> inserted_lossy g host ins x) ->
            insert_loop g chain pb maxn m ins host cps acc = Ok rs ->
            forall x, In x rs -> inserted_lossy g host ins x).
  { induction cps as [|cp cps IH]; intros acc rs0 Hacc H x Hx; simpl in H.
    - inversion H; subst. auto.
    - destruct (Nat.leb maxn (length acc)); [inversion H; subst; auto|].
      apply bind_ok in H as (acc1 & H1 & H). apply bind_ok in H as (acc2 & H2 & H).
      apply bind_ok in H as (acc3 & H3 & H). refine (IH acc3 rs0 _ H x Hx).
      assert (Hacc1 : forall y, In y acc1 -> inserted_lossy g host ins y).
      { destruct (has_method m DIRECT); [|inversion H1; subst; assumption].
        apply bind_ok in H1 as (r & Hd & Ha). intros y Hy.
        destruct (add_all_In _ _ _ _ _ _ _ Ha Hy) as [Hy'|Hy']; [auto|].
        apply inserted_lossy_of_inserted. eapply direct_ok; eassumption. }
      assert (Hacc2 : forall y, In y acc2 -> inserted_lossy g host ins y).
      { destruct (has_method m SELF); [|inversion H2; subst; assumption].
        apply bind_ok in H2 as (r & Hs & Ha). intros y Hy.
        destruct (add_all_In_filter _ _ _ _ _ _ _ Ha Hy) as [Hy'|[Hy' Hcont]]; [auto|].
        apply inserted_lossy_of_inserted. eapply self_embeddings_ok; eassumption. }
      destruct (has_method m CONTEXT); [|inversion H3; subst; assumption].
      apply bind_ok in H3 as (r & Hs & Ha). intros y Hy.
      destruct (add_all_In_checked _ _ _ _ _ _ _ Ha Hy) as [Hy'|(Hy' & Hcont & Hwt)]; [auto|].
      eapply context_additions_lossy; eassumption. }
  intros H Hin. eapply (Hgen (positions host) [] rs); [intros x []| exact H | exact Hin].
Qed.

(* ---------- executable check of pb_start (non-vacuity) ---------- *)
Definition pb_start_tblb (tbl : list (str * str * list (list str))) : bool :=
  forallb (fun e => forallb (fun ch => match ch with X :: _ => str_eqb X (fst (fst e)) | [] => false end)
                            (snd e)) tbl.

Lemma pb_start_tbl_ok tbl : pb_start_tblb tbl = true -> pb_start (lookup2 tbl []).
Proof.
  unfold pb_start, pb_start_tblb.
  induction tbl as [|[[x y] v] tbl IH]; simpl; intros H A B ch Hin; [contradiction|].
  apply andb_true_iff in H as [H1 H2].
  destruct (str_eqb x A && str_eqb y B) eqn:Exy.
  - apply andb_true_iff in Exy as [Ex _]. apply str_eqb_eq in Ex. subst.
    rewrite forallb_forall in H1. specialize (H1 ch Hin). destruct ch as [|X r]; [discriminate|].
    apply str_eqb_eq in H1. subst. eauto.
  - eapply IH; eassumption.
Qed.

Example ex_pb_start : pb_start ex_pb.
Proof. apply pb_start_tbl_ok. vm_compute. reflexivity. Qed.

(* the witness of the open finding is inside the class that the theorem allows:
   inserted_lossy holds, inserted does not *)
Example ctx_lossy_nonvacuous :
  exists rs t, insert_tree ex_g ex_chain ex_pb 50 CONTEXT ex_ins ex_host = Ok rs /\ In t rs /\
    inserted_lossy ex_g ex_host ex_ins t /\ ~ inserted ex_g ex_host ex_ins t.
Proof.
  destruct context_refuted as (rs & t & _ & Hrs & Hin & Hnot & Hl).
  exists rs, t. repeat split; try assumption; apply inserted_lossyb_spec in Hl; apply Hl.
Qed.
