(* C14 — proof extension (4b): a positive termination theorem for create_fixed_length_tree.

   The search terminates (the model never answers OutOfFuel once the fuel exceeds a computable
   bound) on every grammar in which each alternative either strictly increases the length lower
   bound curr_len or, keeping it, closes the leaf (no nonterminal in it):
       grow_ok g NU :  nn NU A < sum (child_len NU) e   \/   (nn NU A = sum ... /\ count_nt e = 0)
   This excludes exactly the shapes behind the known divergences (unit rules <a> ::= <a>, nullable
   recursion <l> ::= <l><l>): see cflt_diverges in FixedLenPruneMore.v.
   Potential of a frame:  phi = (n + 1 - curr_len) * W + #open leaves   (W >= nonterminals per
   alternative); every pushed frame has a smaller potential; a frame has at most #open * M children
   (M >= alternatives per nonterminal); fuel bound  T M phi0. *)
From ISLA Require Import Grammar GrammarFacts TreeFacts FixedLen FixedLenFacts.
From Coq Require Import Lia Arith.

Definition sumlen (NU : list str) (e : alt) : nat := list_sum (map (child_len NU) e).

Definition grow_ok (g : grammar) (NU : list str) : Prop :=
  forall A e, In e (alts g A) ->
    nn NU A < sumlen NU e \/ (nn NU A = sumlen NU e /\ count_nt e = 0).

Definition grow_okb (g : grammar) (NU : list str) : bool :=
  forallb (fun r => forallb (fun e => (nn NU (fst r) <? sumlen NU e) ||
                                      ((nn NU (fst r) =? sumlen NU e) && (count_nt e =? 0)))
                            (snd r)) g.

Lemma alts_rule g A e : In e (alts g A) -> exists r, In r g /\ fst r = A /\ In e (snd r).
Proof.
  induction g as [|[B al0] g IH]; simpl; [contradiction|].
  destruct (str_eqb A B) eqn:E.
  - intro H. exists (B, al0). apply str_eqb_eq in E. subst. auto.
  - intro H. destruct (IH H) as (r & Hr & Hf & Ha). exists r. auto.
Qed.

Lemma grow_okb_spec g NU : grow_okb g NU = true -> grow_ok g NU.
Proof.
  intros H A e He. destruct (alts_rule g A e He) as (r & Hr & <- & Hin).
  unfold grow_okb in H. rewrite forallb_forall in H. specialize (H r Hr).
  rewrite forallb_forall in H. specialize (H e Hin).
  apply orb_true_iff in H as [H|H].
  - left. apply Nat.ltb_lt. assumption.
  - right. apply andb_true_iff in H as [H1 H2]. apply Nat.eqb_eq in H1, H2. auto.
Qed.

(* computable bounds M (alternatives per nonterminal) and W (nonterminals per alternative) *)
Definition max_alts (g : grammar) : nat := fold_right Nat.max 0 (map (fun r => length (snd r)) g).
Definition max_width (g : grammar) : nat :=
  fold_right Nat.max 1 (map (fun r => fold_right Nat.max 0 (map count_nt (snd r))) g).

Lemma fold_max_ge (l : list nat) d x : In x l -> x <= fold_right Nat.max d l.
Proof. induction l as [|a l IH]; simpl; [intros []|intros [Ha|Hx]]; [subst; lia|]. specialize (IH Hx). lia. Qed.

Lemma fold_max_d (l : list nat) d : d <= fold_right Nat.max d l.
Proof. induction l as [|a l IH]; simpl; lia. Qed.

Lemma max_alts_ok g A : length (alts g A) <= max_alts g.
Proof.
  induction g as [|[B al0] g IH]; simpl; [lia|]. unfold max_alts in *. simpl.
  destruct (str_eqb A B); simpl; lia.
Qed.

Lemma max_width_ok g A e : In e (alts g A) -> count_nt e <= max_width g.
Proof.
  intro He. destruct (alts_rule g A e He) as (r & Hr & _ & Hin). unfold max_width.
  etransitivity; [|apply fold_max_ge; apply in_map_iff; exists r; split; [reflexivity|assumption]].
  apply fold_max_ge. apply in_map. assumption.
Qed.

Lemma max_width_pos g : 1 <= max_width g.
Proof. apply fold_max_d. Qed.

(* ------------------------------------------------------------------ *)
(* sizes of what expand_frame pushes                                   *)
(* ------------------------------------------------------------------ *)
Lemma map_res_length {A B} (f : A -> res B) : forall l ys, map_res f l = Ok ys -> length ys = length l.
Proof.
  induction l as [|x l IH]; intros ys H; simpl in H.
  - inversion H; reflexivity.
  - destruct (f x) as [b|e0]; simpl in H; [|discriminate].
    destruct (map_res f l) as [bs|e0]; simpl in H; [|discriminate].
    inversion H; subst. simpl. f_equal. apply IH. reflexivity.
Qed.

Lemma insert_by_length a l : length (insert_by a l) = S (length l).
Proof.
  induction l as [|b l IH]; simpl; [reflexivity|].
  destruct (count_nt a <=? count_nt b); simpl; [reflexivity|]. rewrite IH. reflexivity.
Qed.

Lemma sort_exps_length l : length (sort_exps l) = length l.
Proof. induction l as [|a l IH]; simpl; [reflexivity|]. rewrite insert_by_length, IH. reflexivity. Qed.

Lemma choose_length o term ch o' : choose o term = (ch, o') -> length ch <= length term.
Proof.
  unfold choose. destruct term as [|d term']; [intro H; inversion H; simpl; lia|].
  destruct o as [|i o1]; intro H; inversion H; simpl; lia.
Qed.

Lemma filter_partition {A} (f : A -> bool) l :
  length (filter (fun a => negb (f a)) l) + length (filter f l) = length l.
Proof. induction l as [|a l IH]; simpl; [reflexivity|]. destruct (f a); simpl; lia. Qed.

Lemma new_leaves_length p : forall e i, length (new_leaves p i e) = count_nt e.
Proof.
  unfold count_nt. induction e as [|x e IH]; intro i; simpl; [reflexivity|].
  rewrite app_length, IH. destruct (is_nt x); reflexivity.
Qed.

Lemma push_frame_sizes NU t cl ls idx p A e t' cl' ls' leaf :
  nth_error ls idx = Some leaf ->
  push_frame NU (t, cl, ls) idx p A e = Ok (t', cl', ls') ->
  cl' = cl + sumlen NU e - nn NU A /\ length ls' + 1 = length ls + count_nt e.
Proof.
  intros Hidx H. unfold push_frame in H.
  destruct (replace_path t p (Node A 0%N false (map mk_child e))) as [t1|e0]; simpl in H; [|discriminate].
  inversion H; subst. split; [reflexivity|].
  rewrite !app_length, new_leaves_length.
  assert (Hlt : idx < length ls) by (apply nth_error_Some; congruence).
  change (match ls with [] => [] | _ :: l => skipn idx l end) with (skipn (S idx) ls). rewrite firstn_length_le by lia. rewrite skipn_length. lia.
Qed.

Section Children.
  Variables (g : grammar) (NU : list str) (M : nat).
  Hypothesis HM : forall A, length (alts g A) <= M.
  Variable fr : frame.
  Variable Q : frame -> Prop.
  Hypothesis HQ : forall idx leaf e fr', nth_error (snd fr) idx = Some leaf ->
    In e (alts g (snd leaf)) -> push_frame NU fr idx (fst leaf) (snd leaf) e = Ok fr' -> Q fr'.

  Lemma expand_leaf_all idx leaf o fs o' :
    nth_error (snd fr) idx = Some leaf ->
    expand_leaf g NU fr idx leaf o = Ok (fs, o') -> Forall Q fs /\ length fs <= M.
  Proof.
    intros Hidx H. destruct leaf as [p A]. unfold expand_leaf in H.
    destruct (negb (defined g A)); [discriminate|].
    destruct (choose o (term_exps g A)) as [ch o1] eqn:Ech.
    destruct (map_res (push_frame NU fr idx p A) (sort_exps (nonterm_exps g A ++ ch)))
      as [fs0|e0] eqn:Em; simpl in H; [|discriminate].
    inversion H; subst. split.
    - apply Forall_forall. intros fr' Hfr.
      destruct (map_res_out _ _ _ Em fr' Hfr) as (e & He & Hpush).
      apply (HQ idx (p, A) e fr' Hidx); [|assumption]. simpl. eapply pushed_in_alts; eassumption.
    - rewrite (map_res_length _ _ _ Em), sort_exps_length, app_length.
      pose proof (choose_length _ _ _ _ Ech) as Hc. unfold nonterm_exps, term_exps in *.
      pose proof (filter_partition is_term_exp (alts g A)). specialize (HM A). lia.
  Qed.

  Lemma expand_desc_all : forall ils o acc fs o',
    (forall idx leaf, In (idx, leaf) ils -> nth_error (snd fr) idx = Some leaf) ->
    Forall Q acc ->
    expand_desc g NU fr ils o acc = Ok (fs, o') ->
    Forall Q fs /\ length fs <= length acc + length ils * M.
  Proof.
    induction ils as [|[idx leaf] ils IH]; intros o acc fs o' Hall Hacc H; simpl in H.
    - inversion H; subst. split; [assumption|lia].
    - destruct (expand_leaf g NU fr idx leaf o) as [[fs1 o1]|e0] eqn:El; simpl in H; [|discriminate].
      destruct (expand_leaf_all idx leaf o fs1 o1 (Hall idx leaf (or_introl eq_refl)) El) as [HQ1 Hl1].
      destruct (IH o1 (fs1 ++ acc) fs o') as [HQ2 Hl2]; try assumption.
      + intros i l Hin. apply Hall. right. assumption.
      + apply Forall_app. split; assumption.
      + split; [assumption|]. rewrite app_length in Hl2. simpl. lia.
  Qed.

  Lemma expand_frame_all o fs o' :
    expand_frame g NU fr o = Ok (fs, o') -> Forall Q fs /\ length fs <= length (snd fr) * M.
  Proof.
    intro H. unfold expand_frame in H.
    destruct (expand_desc_all (rev (enumerate (snd fr))) o [] fs o') as [H1 H2]; try eassumption.
    - intros idx leaf Hin. apply in_rev in Hin. unfold enumerate in Hin.
      apply In_enumerate in Hin as [Hn _]. rewrite Nat.sub_0_r in Hn. assumption.
    - constructor.
    - split; [assumption|]. simpl in H2. unfold enumerate in H2.
      rewrite rev_length, combine_length, seq_length, Nat.min_id in H2. assumption.
  Qed.
End Children.

(* ------------------------------------------------------------------ *)
(* the potential and the fuel bound                                    *)
(* ------------------------------------------------------------------ *)
Definition phi (n W : nat) (fr : frame) : nat :=
  let '(t, cl, ls) := fr in (n + 1 - cl) * W + length ls.

Fixpoint fuel_bound (M k : nat) : nat :=
  match k with 0 => 1 | S k' => 1 + (S k') * M * fuel_bound M k' end.

Lemma fuel_bound_pos M k : 1 <= fuel_bound M k.
Proof. destruct k; simpl; lia. Qed.

Definition done (r : cres) : Prop :=
  match r with Found _ | Err _ => True | _ => False end.

Section Term.
  Variables (g : grammar) (NU : list str) (n M W : nat).
  Hypothesis HG : grow_ok g NU.
  Hypothesis HM : forall A, length (alts g A) <= M.
  Hypothesis HW : forall A e, In e (alts g A) -> count_nt e <= W.
  Hypothesis HW1 : 1 <= W.

  (* the frames fs on top of the stack are dealt with within B iterations: either the loop ends
     with a definite answer, or they have all been popped *)
  Definition proc (fs : list frame) (B : nat) : Prop :=
    forall st o, exists j, j <= B /\
      ((exists r, done r /\ forall f, cflt_loop (j + f) g NU n (fs ++ st) o = r) \/
       (exists o', forall f, cflt_loop (j + f) g NU n (fs ++ st) o = cflt_loop f g NU n st o')).

  Lemma proc_nil : proc [] 0.
  Proof. intros st o. exists 0. split; [lia|]. right. exists o. reflexivity. Qed.

  Lemma proc_cons fr fs B1 B2 : proc [fr] B1 -> proc fs B2 -> proc (fr :: fs) (B1 + B2).
  Proof.
    intros H1 H2 st o. destruct (H1 (fs ++ st) o) as (j1 & Hj1 & [(r & Hr & Hrun)|(o1 & Hrun)]).
    - exists j1. split; [lia|]. left. exists r. split; [assumption|]. exact Hrun.
    - destruct (H2 st o1) as (j2 & Hj2 & [(r & Hr & Hrun2)|(o2 & Hrun2)]).
      + exists (j1 + j2). split; [lia|]. left. exists r. split; [assumption|].
        intro f. rewrite <- Nat.add_assoc. simpl app. simpl app in Hrun. rewrite Hrun. apply Hrun2.
      + exists (j1 + j2). split; [lia|]. right. exists o2.
        intro f. rewrite <- Nat.add_assoc. simpl app. simpl app in Hrun. rewrite Hrun. apply Hrun2.
  Qed.

  Lemma proc_list B : forall fs, Forall (fun fr => proc [fr] B) fs -> proc fs (length fs * B).
  Proof.
    induction fs as [|fr fs IH]; intro H; simpl; [apply proc_nil|].
    inversion H; subst. apply proc_cons; auto.
  Qed.

  Lemma child_phi t cl ls idx leaf e fr' :
    cl <= n -> nth_error ls idx = Some leaf -> In e (alts g (snd leaf)) ->
    push_frame NU (t, cl, ls) idx (fst leaf) (snd leaf) e = Ok fr' ->
    phi n W fr' < phi n W (t, cl, ls).
  Proof.
    intros Hcl Hidx He Hp. destruct fr' as [[t' cl'] ls'].
    destruct (push_frame_sizes _ _ _ _ _ _ _ _ _ _ _ _ Hidx Hp) as [Ecl Els].
    pose proof (HW _ _ He) as Hw. unfold phi.
    assert (Hls : 1 <= length ls) by (assert (idx < length ls) by (apply nth_error_Some; congruence); lia).
    destruct (HG _ _ He) as [Hlt|[Heq H0]].
    - assert (Hcl' : cl + 1 <= cl') by lia.
      assert (Ha : (n + 1 - cl') * W + W <= (n + 1 - cl) * W).
      { replace ((n + 1 - cl') * W + W) with ((n + 1 - cl' + 1) * W) by lia.
        apply Nat.mul_le_mono_r. lia. }
      lia.
    - assert (cl' = cl) by lia. subst cl'. lia.
  Qed.

  Lemma proc_frame : forall k fr, phi n W fr <= k -> proc [fr] (fuel_bound M k).
  Proof.
    induction k as [|k IH]; intros [[t cl] ls] Hphi st o.
    - (* potential 0: no open leaf *)
      unfold phi in Hphi. destruct ls as [|x ls]. 2: { simpl length in Hphi. remember ((n + 1 - cl) * W) as X. lia. }
      exists 1. split; [simpl; lia|]. destruct (cl =? n) eqn:E.
      + left. exists (Found t). split; [exact I|]. intro f. simpl. rewrite E. reflexivity.
      + right. exists o. intro f. simpl. rewrite E. reflexivity.
    - destruct ls as [|x ls].
      + exists 1. split; [apply fuel_bound_pos|]. destruct (cl =? n) eqn:E.
        * left. exists (Found t). split; [exact I|]. intro f. simpl. rewrite E. reflexivity.
        * right. exists o. intro f. simpl. rewrite E. reflexivity.
      + destruct (n <? cl) eqn:Elt.
        * exists 1. split; [apply fuel_bound_pos|]. right. exists o. intro f. simpl. rewrite Elt. reflexivity.
        * apply Nat.ltb_ge in Elt as Hcl.
          destruct (expand_frame g NU (t, cl, x :: ls) o) as [[fs o1]|e0] eqn:Ee.
          -- destruct (expand_frame_all g NU M HM (t, cl, x :: ls)
                         (fun fr' => phi n W fr' < phi n W (t, cl, x :: ls))
                         (fun idx leaf e fr' Hi He Hp => child_phi t cl (x :: ls) idx leaf e fr' Hcl Hi He Hp)
                         o fs o1 Ee) as [Hall Hlen].
             assert (Hproc : proc fs (length fs * fuel_bound M k)).
             { apply proc_list. eapply Forall_impl; [|exact Hall]. intros fr' Hlt. cbv beta in Hlt. apply IH. lia. }
             destruct (Hproc st o1) as (j & Hj & Hcases).
             exists (1 + j). split.
             { simpl fuel_bound. simpl snd in Hlen.
               assert (length (x :: ls) <= S k) by (simpl in Hphi |- *; lia).
               assert (length fs * fuel_bound M k <= S k * M * fuel_bound M k).
               { apply Nat.mul_le_mono_r. etransitivity; [exact Hlen|]. apply Nat.mul_le_mono_r. assumption. }
               lia. }
             destruct Hcases as [(r & Hr & Hrun)|(o2 & Hrun)].
             ++ left. exists r. split; [assumption|]. intro f.
                change (1 + j + f) with (S (j + f)). simpl. rewrite Elt, Ee. apply Hrun.
             ++ right. exists o2. intro f.
                change (1 + j + f) with (S (j + f)). simpl. rewrite Elt, Ee. apply Hrun.
          -- exists 1. split; [apply fuel_bound_pos|]. left. exists (Err e0). split; [exact I|].
             intro f. simpl. rewrite Elt, Ee. reflexivity.
  Qed.

  Theorem cflt_with_terminates A o fuel :
    fuel_bound M ((n + 1 - nn NU A) * W + 1) < fuel ->
    cflt_with fuel g NU A n o <> OutOfFuel.
  Proof.
    intro Hf. unfold cflt_with.
    destruct (proc_frame ((n + 1 - nn NU A) * W + 1) (Node A 0%N true [], nn NU A, [([], A)])
                (le_n _) [] o) as (j & Hj & [(r & Hr & Hrun)|(o' & Hrun)]).
    - replace fuel with (j + (fuel - j)) by lia. simpl app in Hrun. rewrite Hrun.
      intro E. rewrite E in Hr. exact Hr.
    - replace fuel with (j + S (fuel - j - 1)) by lia. simpl app in Hrun. rewrite Hrun.
      simpl. discriminate.
  Qed.
End Term.

(* with the computable bounds *)
Theorem cflt_terminates g A n o fuel :
  grow_okb g (nullables g) = true ->
  fuel_bound (max_alts g) ((n + 1 - nn (nullables g) A) * max_width g + 1) < fuel ->
  cflt fuel g A n o <> OutOfFuel.
Proof.
  intros HG Hf. unfold cflt.
  apply (cflt_with_terminates g (nullables g) n (max_alts g) (max_width g)); try assumption.
  - apply grow_okb_spec. assumption.
  - apply max_alts_ok.
  - apply max_width_ok.
  - apply max_width_pos.
Qed.

(* non-vacuity: the running example  <a> ::= <b><a> | "",  <b> ::= "x" | "yy"  (with a nullable,
   recursive nonterminal) satisfies the condition; the diverging grammar does not *)
Example grow_ok_ex : grow_okb ex_g (nullables ex_g) = true /\ max_alts ex_g = 2 /\ max_width ex_g = 2.
Proof. vm_compute. auto. Qed.
