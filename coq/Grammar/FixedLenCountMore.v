(* C14 — proof extension (1): count_result_sound for finish_candidate.

   finish_candidate = one popped candidate of count()'s `while candidates:` loop whose needle count
   equals the target: every open leaf that reaches the needle is replaced by the tree returned by
   find_expansion_without_needle (few).  Proved here, for all inputs:
     - few returns a tree with the label of its root, with the SAME number of needle nodes as the
       root leaf it started from (no inner needle node is ever created), whose open leaves do not
       reach the needle;
     - several replace_path at distinct open leaves do not interfere;
     - hence a FinTree result has exactly the needle count of the candidate and no open leaf that
       reaches the needle (count_target_met). *)
From ISLA Require Import Grammar GrammarFacts TreeFacts FixedLen FixedLenFacts.
From Coq Require Import Lia Arith ZArith.

(* ------------------------------------------------------------------ *)
(* paths that part ways                                                *)
(* ------------------------------------------------------------------ *)
Inductive diverge : path -> path -> Prop :=
| div_here : forall i j p q, i <> j -> diverge (i :: p) (j :: q)
| div_cons : forall i p q, diverge p q -> diverge (i :: p) (i :: q).

Lemma diverge_irrefl p : ~ diverge p p.
Proof.
  induction p as [|i p IH]; intro H; inversion H as [i' j' p' q' Hne | i' p' q' Hd]; subst.
  - congruence.
  - auto.
Qed.

Lemma diverge_not_ext p : forall q, ~ diverge p (p ++ q).
Proof.
  induction p as [|i p IH]; intros q H; simpl in H;
    inversion H as [i' j' p' q' Hne | i' p' q' Hd]; subst.
  - congruence.
  - eapply IH; eassumption.
Qed.

(* two distinct childless nodes of one tree sit at diverging paths *)
Lemma leaves_diverge : forall p q t s1 s2,
  subtree t p = Some s1 -> kids s1 = [] -> subtree t q = Some s2 -> kids s2 = [] ->
  p <> q -> diverge p q.
Proof.
  induction p as [|i p IH]; intros q t s1 s2 H1 K1 H2 K2 Hne.
  - simpl in H1. inversion H1; subst s1. destruct q as [|j q]; [congruence|].
    simpl in H2. rewrite K1 in H2. destruct j; discriminate.
  - destruct q as [|j q].
    + simpl in H2. inversion H2; subst s2. simpl in H1. rewrite K2 in H1. destruct i; discriminate.
    + destruct (Nat.eq_dec i j) as [->|Hij]; [|apply div_here; assumption].
      apply div_cons. simpl in H1, H2.
      destruct (nth_error (kids t) j) as [c|]; [|discriminate].
      eapply IH; try eassumption. congruence.
Qed.

(* ------------------------------------------------------------------ *)
(* what a successful replace_path does                                 *)
(* ------------------------------------------------------------------ *)
Lemma count_nodes_node needle l i o ks :
  count_nodes needle (Node l i o ks) =
  (if str_eqb l needle then 1 else 0) + list_sum (map (count_nodes needle) ks).
Proof. reflexivity. Qed.

Lemma replace_ok_facts needle : forall p t r t',
  replace_path t p r = Ok t' ->
  exists old, subtree t p = Some old /\
    count_nodes needle t' + count_nodes needle old = count_nodes needle t + count_nodes needle r /\
    (forall q, subtree t' (p ++ q) = subtree r q) /\
    (forall q, diverge p q -> subtree t' q = subtree t q) /\
    (forall q s, subtree t' q = Some s -> opn s = true ->
       (exists q', q = p ++ q' /\ subtree r q' = Some s) \/ (diverge p q /\ subtree t q = Some s)).
Proof.
  induction p as [|k p IH]; intros t r t' H.
  - simpl in H. inversion H; subst t'. exists t. simpl.
    split; [reflexivity|]. split; [lia|]. split; [reflexivity|]. split.
    + intros q Hd. inversion Hd.
    + intros q s Hs Ho. left. exists q. auto.
  - destruct t as [l i o ks]. simpl in H. destruct o; [discriminate|].
    destruct (nth_error ks k) as [c|] eqn:Ek; [|discriminate].
    destruct (replace_path c p r) as [c'|e0] eqn:Erep; simpl in H; [|discriminate].
    inversion H; subst t'; clear H.
    destruct (IH c r c' Erep) as (old & Hold & Hcnt & Hsub & Hdiv & Hnew).
    set (ks' := firstn k ks ++ c' :: skipn (S k) ks).
    pose proof (nth_error_split_fs _ _ _ Ek) as Hks.
    exists old. split; [simpl; rewrite Ek; assumption|]. split.
    { rewrite !count_nodes_node. unfold ks'.
      assert (E : list_sum (map (count_nodes needle) ks) =
                  list_sum (map (count_nodes needle) (firstn k ks)) +
                  (count_nodes needle c + list_sum (map (count_nodes needle) (skipn (S k) ks)))).
      { rewrite Hks at 1. rewrite map_app, list_sum_app. reflexivity. }
      rewrite E, map_app, list_sum_app. simpl. lia. }
    split.
    { intro q. simpl. unfold ks'. rewrite (nth_error_upd_same _ _ _ _ Ek). apply Hsub. }
    split.
    { intros q Hd. inversion Hd as [i' j' p' q' Hne | i' p' q' Hd']; subst; simpl; unfold ks'.
      - rewrite (nth_error_upd_other _ _ _ _ _ Ek) by congruence. reflexivity.
      - rewrite (nth_error_upd_same _ _ _ _ Ek), Ek. apply Hdiv. assumption. }
    { intros q s Hs Ho. destruct q as [|j q].
      - simpl in Hs. inversion Hs; subst s. simpl in Ho. discriminate.
      - simpl in Hs. destruct (Nat.eq_dec j k) as [->|Hjk].
        + unfold ks' in Hs. rewrite (nth_error_upd_same _ _ _ _ Ek) in Hs.
          destruct (Hnew q s Hs Ho) as [(q' & -> & Hq')|[Hq1 Hq2]].
          * left. exists q'. auto.
          * right. split; [apply div_cons; assumption|]. simpl. rewrite Ek. assumption.
        + unfold ks' in Hs. rewrite (nth_error_upd_other _ _ _ _ _ Ek Hjk) in Hs.
          right. split; [apply div_here; congruence|]. simpl. assumption. }
Qed.

(* ------------------------------------------------------------------ *)
(* expand_one_step                                                     *)
(* ------------------------------------------------------------------ *)
Fixpoint eos_kids (g : grammar) (ks : list tree) : res (list (list tree)) :=
  match ks with
  | [] => Ok []
  | k :: ks' => bind (eos g k) (fun a => bind (eos_kids g ks') (fun b => Ok (a :: b)))
  end.

Lemma eos_unfold g l i o ks :
  eos g (Node l i o ks) =
  if o then
    if negb (defined g l) then Raise KeyErr
    else Ok (map (fun e => Node l i false (map exp_child e)) (alts g l))
  else bind (eos_kids g ks)
            (fun apk => Ok (map (fun ks' => Node l i false ks') (prod_lists apk))).
Proof.
  simpl. destruct o; [reflexivity|]. f_equal.
  induction ks as [|k ks IH]; simpl; [reflexivity|]. rewrite IH. reflexivity.
Qed.

Lemma eos_kids_spec g : forall ks apk, eos_kids g ks = Ok apk ->
  Forall2 (fun k a => eos g k = Ok a) ks apk.
Proof.
  induction ks as [|k ks IH]; intros apk H; simpl in H.
  - inversion H; subst. constructor.
  - destruct (eos g k) as [a|e0] eqn:Ea; simpl in H; [|discriminate].
    destruct (eos_kids g ks) as [b|e0] eqn:Eb; simpl in H; [|discriminate].
    inversion H; subst. constructor; [assumption|]. apply IH. reflexivity.
Qed.

Lemma prod_lists_spec {A} : forall (ls : list (list A)) xs,
  In xs (prod_lists ls) -> Forall2 (fun x l => In x l) xs ls.
Proof.
  induction ls as [|l ls IH]; intros xs H; simpl in H.
  - destruct H as [<-|[]]. constructor.
  - apply in_flat_map in H as (x & Hx & H). apply in_map_iff in H as (ys & <- & Hys).
    constructor; [assumption|]. apply IH. assumption.
Qed.

Lemma leaf_labels_node l i o ks :
  ks <> [] -> leaf_labels (Node l i o ks) = flat_map leaf_labels ks.
Proof. destruct ks; [congruence|reflexivity]. Qed.

Definition no_needle_leaf (needle : str) (t : tree) : bool :=
  negb (existsb (fun l => str_eqb l needle) (leaf_labels t)).

Lemma no_needle_leaf_kids needle l i o ks c :
  no_needle_leaf needle (Node l i o ks) = true -> In c ks -> no_needle_leaf needle c = true.
Proof.
  unfold no_needle_leaf. intros H Hin. rewrite leaf_labels_node in H
    by (intro E; rewrite E in Hin; contradiction).
  apply negb_true_iff in H. apply negb_true_iff. apply not_true_is_false. intro E.
  apply existsb_exists in E as (x & Hx & Hxn).
  assert (existsb (fun l0 => str_eqb l0 needle) (flat_map leaf_labels ks) = true); [|congruence].
  apply existsb_exists. exists x. split; [|assumption]. apply in_flat_map. eauto.
Qed.

Lemma exp_children_count needle e :
  (forall x, In x e -> str_eqb x needle = false) ->
  list_sum (map (count_nodes needle) (map exp_child e)) = 0.
Proof.
  induction e as [|x e IH]; intro H; simpl; [reflexivity|].
  rewrite (H x) by (left; reflexivity). rewrite IH by (intros y Hy; apply H; right; assumption).
  reflexivity.
Qed.

Lemma leaf_labels_exp_children e : flat_map leaf_labels (map exp_child e) = e.
Proof. induction e as [|x e IH]; simpl; [reflexivity|]. f_equal. assumption. Qed.

Lemma shape_ok_exp_children e : forallb shape_ok (map exp_child e) = true.
Proof.
  induction e as [|x e IH]; simpl; [reflexivity|]. rewrite IH.
  destruct (is_nt x); reflexivity.
Qed.

(* one expansion step never changes the root label, keeps the shape invariant, and — when the
   new tree has no leaf labelled needle — does not change the number of needle nodes *)
Lemma eos_facts g needle : forall t news new,
  shape_ok t = true -> eos g t = Ok news -> In new news ->
  shape_ok new = true /\ lbl new = lbl t /\
  (no_needle_leaf needle new = true -> count_nodes needle new = count_nodes needle t).
Proof.
  induction t as [l i o ks IH] using tree_ind'. intros news new Hsh H Hin.
  rewrite eos_unfold in H. destruct o.
  - destruct (negb (defined g l)); [discriminate|]. inversion H; subst news; clear H.
    apply in_map_iff in Hin as (e & <- & He).
    simpl in Hsh. destruct ks as [|k0 ks0]; [|discriminate].
    split; [simpl; apply shape_ok_exp_children|]. split; [reflexivity|].
    intro Hnl. rewrite !count_nodes_node. simpl. f_equal.
    unfold no_needle_leaf in Hnl. apply negb_true_iff in Hnl.
    destruct e as [|x e'].
    + reflexivity.
    + rewrite leaf_labels_node in Hnl by discriminate. rewrite leaf_labels_exp_children in Hnl.
      rewrite exp_children_count; [lia|]. intros y Hy. apply not_true_is_false. intro E.
      assert (existsb (fun l0 => str_eqb l0 needle) (x :: e') = true); [|congruence].
      apply existsb_exists. eauto.
  - destruct (eos_kids g ks) as [apk|e0] eqn:Ek; simpl in H; [|discriminate].
    inversion H; subst news; clear H.
    apply in_map_iff in Hin as (ks' & <- & Hks').
    apply eos_kids_spec in Ek. apply prod_lists_spec in Hks'.
    simpl in Hsh.
    assert (Hall : Forall2 (fun k k' => shape_ok k' = true /\ lbl k' = lbl k /\
                     (no_needle_leaf needle k' = true ->
                      count_nodes needle k' = count_nodes needle k)) ks ks').
    { clear l i. revert ks' Hks'. induction Ek as [|k a ks apk Hk Hrest IHk]; intros ks' Hks'.
      - inversion Hks'; subst. constructor.
      - inversion Hks' as [|k' a' ks1 apk1 Hk' Hrest']; subst.
        inversion IH as [|k0 ks0 IHk0 IHks0]; subst.
        simpl in Hsh. apply andb_true_iff in Hsh as [Hshk Hshks].
        constructor.
        + eapply IHk0; eassumption.
        + apply IHk; assumption. }
    split.
    { simpl. clear -Hall. induction Hall as [|k k' ks ks' (H1 & _) _ IHa]; simpl; [reflexivity|].
      rewrite H1, IHa. reflexivity. }
    split; [reflexivity|].
    intro Hnl. rewrite !count_nodes_node. f_equal.
    assert (Hk : forall c, In c ks' -> no_needle_leaf needle c = true)
      by (intros c Hc; eapply no_needle_leaf_kids; eassumption).
    clear -Hall Hk. induction Hall as [|k k' ks ks' (_ & _ & H3) _ IHa]; simpl; [reflexivity|].
    rewrite H3 by (apply Hk; left; reflexivity).
    rewrite IHa by (intros c Hc; apply Hk; right; assumption). reflexivity.
Qed.

Lemma expand_one_step_in g t news new :
  expand_one_step g t = Ok news -> In new news -> eos g t = Ok news.
Proof.
  unfold expand_one_step. destruct (is_openT t).
  - destruct (eos g t) as [[|x xs]|e0]; intros H Hin; try discriminate; assumption.
  - intros H Hin. inversion H; subst. contradiction.
Qed.

(* ------------------------------------------------------------------ *)
(* find_expansion_without_needle                                       *)
(* ------------------------------------------------------------------ *)
Section Few.
  Variable reach : str -> str -> bool.
  Variable needle : str.

  Definition passes (t : tree) : Prop := no_needle_leaf needle t = true.

  Lemma few_scan_spec : forall news acc,
    match few_scan reach needle news acc with
    | inl r => In r news /\ passes r /\
               forallb (fun l => negb (reach l needle)) (open_labels r) = true
    | inr out => forall x, In x out -> In x acc \/ (In x news /\ passes x)
    end.
  Proof.
    induction news as [|t rest IH]; intro acc; simpl.
    - intros x Hx. left. assumption.
    - destruct (existsb (fun l => str_eqb l needle) (leaf_labels t)) eqn:E1.
      + specialize (IH acc). destruct (few_scan reach needle rest acc) as [r|out].
        * destruct IH as (H1 & H2 & H3). auto.
        * intros x Hx. destruct (IH x Hx) as [H|[H1 H2]]; auto.
      + destruct (forallb (fun l => negb (reach l needle)) (open_labels t)) eqn:E2.
        * split; [left; reflexivity|]. split; [|assumption].
          unfold passes, no_needle_leaf. rewrite E1. reflexivity.
        * specialize (IH (acc ++ [t])). destruct (few_scan reach needle rest (acc ++ [t])) as [r|out].
          -- destruct IH as (H1 & H2 & H3). auto.
          -- intros x Hx. destruct (IH x Hx) as [H|[H1 H2]]; auto.
             apply in_app_or in H as [H|[<-|[]]]; auto.
             right. split; [left; reflexivity|]. unfold passes, no_needle_leaf. rewrite E1. reflexivity.
  Qed.

  (* invariant of the trees on the stack of find_expansion_without_needle *)
  Definition fewI (l0 : str) (c0 : nat) (t : tree) : Prop :=
    shape_ok t = true /\ lbl t = l0 /\ count_nodes needle t = c0.

  Lemma few_loop_sound g l0 c0 : forall fuel stack r,
    Forall (fewI l0 c0) stack -> few_loop reach fuel g needle stack = FSome r ->
    fewI l0 c0 r /\ forallb (fun l => negb (reach l needle)) (open_labels r) = true.
  Proof.
    induction fuel as [|f IH]; intros stack r Hst H; simpl in H; [discriminate|].
    destruct stack as [|t st]; [discriminate|].
    inversion Hst as [|t0 st0 (Hsh & Hl & Hc) Hst']; subst.
    destruct (expand_one_step g t) as [news|e0] eqn:Ee; [|discriminate].
    assert (Hnew : forall x, In x news -> passes x -> fewI (lbl t) (count_nodes needle t) x).
    { intros x Hx Hp. pose proof (expand_one_step_in _ _ _ _ Ee Hx) as Heos.
      destruct (eos_facts g needle t news x Hsh Heos Hx) as (H1 & H2 & H3).
      split; [assumption|]. split; [assumption|]. apply H3. assumption. }
    pose proof (few_scan_spec news []) as Hscan.
    destruct (few_scan reach needle news []) as [r0|out].
    - inversion H; subst r0. destruct Hscan as (H1 & H2 & H3). split; [|assumption]. auto.
    - eapply IH; [|eassumption]. apply Forall_app. split; [|assumption].
      apply Forall_forall. intros x Hx. apply in_rev in Hx.
      destruct (Hscan x Hx) as [[]|[H1 H2]]. auto.
  Qed.

  (* find_expansion_without_needle: the result keeps the root label, has the same number of needle
     nodes as the root it started from (only the root itself can be a needle), and none of its open
     leaves reaches the needle *)
  Theorem few_sound g fuel root r :
    shape_ok root = true -> few reach fuel g needle root = FSome r ->
    shape_ok r = true /\ lbl r = lbl root /\ count_nodes needle r = count_nodes needle root /\
    (forall p s, subtree r p = Some s -> opn s = true -> reach (lbl s) needle = false).
  Proof.
    intros Hsh H. unfold few in H.
    destruct (few_loop_sound g (lbl root) (count_nodes needle root) fuel [root] r) as ((H1 & H2 & H3) & H4).
    - constructor; [|constructor]. split; [assumption|]. split; reflexivity.
    - assumption.
    - split; [assumption|]. split; [assumption|]. split; [assumption|].
      intros p s Hs Ho. rewrite forallb_forall in H4.
      apply negb_true_iff. apply H4. apply open_labels_spec. exists p, s. auto.
  Qed.

  (* ---------------------------------------------------------------- *)
  (* open_leaves_at                                                   *)
  (* ---------------------------------------------------------------- *)
  Fixpoint ola_kids (p : path) (j : nat) (ks : list tree) : list (path * tree) :=
    match ks with
    | [] => []
    | c :: ks' => open_leaves_at c (p ++ [j]) ++ ola_kids p (S j) ks'
    end.

  Lemma ola_unfold l i o ks p :
    open_leaves_at (Node l i o ks) p =
    (if o then [(p, Node l i o ks)] else []) ++ ola_kids p 0 ks.
  Proof.
    simpl. f_equal. generalize 0 as j. induction ks as [|c ks IH]; intro j; simpl; [reflexivity|].
    rewrite IH. reflexivity.
  Qed.

  (* soundness: every listed pair is an open node at that path *)
  Lemma ola_sound : forall t p0 q s, In (q, s) (open_leaves_at t p0) ->
    exists q', q = p0 ++ q' /\ subtree t q' = Some s /\ opn s = true.
  Proof.
    induction t as [l i o ks IH] using tree_ind'. intros p0 q s H.
    rewrite ola_unfold in H. apply in_app_or in H as [H|H].
    - destruct o; [|contradiction]. destruct H as [H|[]]. inversion H; subst.
      exists []. rewrite app_nil_r. auto.
    - assert (G : forall j, In (q, s) (ola_kids p0 j ks) ->
                 exists k c q'', nth_error ks k = Some c /\ q = p0 ++ (j + k) :: q'' /\
                                 subtree c q'' = Some s /\ opn s = true).
      { clear H. induction ks as [|c ks IHks]; intros j H; simpl in H; [contradiction|].
        inversion IH as [|c0 ks0 IHc IHrest]; subst.
        apply in_app_or in H as [H|H].
        - apply IHc in H as (q' & -> & Hs & Ho). exists 0, c, q'.
          rewrite Nat.add_0_r, <- app_assoc. simpl. auto.
        - destruct (IHks IHrest (S j) H) as (k & c1 & q'' & Hk & -> & Hs & Ho).
          exists (S k), c1, q''. rewrite <- plus_n_Sm. simpl. auto. }
      destruct (G 0 H) as (k & c & q'' & Hk & -> & Hs & Ho). exists (k :: q''). simpl.
      rewrite Hk. auto.
  Qed.

  (* completeness: every open node is listed *)
  Lemma ola_complete : forall q t p0 s, subtree t q = Some s -> opn s = true ->
    In (p0 ++ q, s) (open_leaves_at t p0).
  Proof.
    induction q as [|k q IH]; intros t p0 s Hs Ho; destruct t as [l i o ks].
    - simpl in Hs. inversion Hs; subst s. simpl in Ho. subst o. rewrite ola_unfold, app_nil_r.
      left. reflexivity.
    - simpl in Hs. destruct (nth_error ks k) as [c|] eqn:Ek; [|discriminate].
      rewrite ola_unfold. apply in_or_app. right.
      assert (G : forall j ks0, nth_error ks0 k = Some c ->
                 In (p0 ++ (j + k) :: q, s) (ola_kids p0 j ks0)).
      { clear Ek. revert Hs. clear -IH Ho. intro Hs. induction k as [|k IHk]; intros j ks0 Hk;
          destruct ks0 as [|c0 ks0]; simpl in Hk; try discriminate.
        - inversion Hk; subst c0. simpl. apply in_or_app. left.
          rewrite Nat.add_0_r. replace (p0 ++ j :: q) with ((p0 ++ [j]) ++ q)
            by (rewrite <- app_assoc; reflexivity).
          apply IH; assumption.
        - simpl. apply in_or_app. right. rewrite <- plus_n_Sm. apply (IHk (S j)). assumption. }
      apply (G 0 ks Ek).
  Qed.

  Lemma ola_NoDup : forall t p0, NoDup (map fst (open_leaves_at t p0)).
  Proof.
    induction t as [l i o ks IH] using tree_ind'. intro p0. rewrite ola_unfold, map_app.
    assert (Hform : forall j q s, In (q, s) (ola_kids p0 j ks) ->
              exists k q', q = p0 ++ (j + k) :: q').
    { clear IH. induction ks as [|c ks IHks]; intros j q s H; simpl in H; [contradiction|].
      apply in_app_or in H as [H|H].
      - apply ola_sound in H as (q' & -> & _). exists 0, q'.
        rewrite Nat.add_0_r, <- app_assoc. reflexivity.
      - destruct (IHks (S j) q s H) as (k & q' & ->). exists (S k), q'. rewrite <- plus_n_Sm.
        reflexivity. }
    assert (Hk : forall j, NoDup (map fst (ola_kids p0 j ks))).
    { clear Hform. induction ks as [|c ks IHks]; intro j; simpl; [constructor|].
      inversion IH as [|c0 ks0 IHc IHrest]; subst.
      rewrite map_app. apply NoDup_app_intro; [apply IHc | apply IHks; assumption |].
      intros q Hq1 Hq2.
      apply in_map_iff in Hq1 as ([q1 s1] & E1 & H1). simpl in E1. subst q1.
      apply in_map_iff in Hq2 as ([q2 s2] & E2 & H2). simpl in E2. subst q2.
      apply ola_sound in H1 as (q' & -> & _).
      assert (Hform' : exists k q'', (p0 ++ [j]) ++ q' = p0 ++ (S j + k) :: q'').
      { clear -H2. revert H2. generalize (S j) as j'. generalize ((p0 ++ [j]) ++ q') as q.
        induction ks as [|c ks IHks]; intros q j' H; simpl in H; [contradiction|].
        apply in_app_or in H as [H|H].
        - apply ola_sound in H as (q1 & -> & _). exists 0, q1.
          rewrite Nat.add_0_r, <- app_assoc. reflexivity.
        - destruct (IHks q (S j') H) as (k & q1 & ->). exists (S k), q1. rewrite <- plus_n_Sm.
          reflexivity. }
      destruct Hform' as (k & q'' & E). rewrite <- app_assoc in E. apply app_inv_head in E.
      simpl in E. inversion E. lia. }
    destruct o; simpl; [|apply Hk].
    constructor; [|apply Hk]. intro Hin.
    apply in_map_iff in Hin as ([q s] & E & H). simpl in E. subst q.
    destruct (Hform 0 p0 s H) as (k & q' & E).
    apply (f_equal (@length nat)) in E. rewrite app_length in E. simpl in E. lia.
  Qed.

  (* ---------------------------------------------------------------- *)
  (* fill_leaves / finish_candidate                                   *)
  (* ---------------------------------------------------------------- *)
  Definition harmless (t : tree) : Prop :=
    forall p s, subtree t p = Some s -> opn s = true -> reach (lbl s) needle = false.

  Lemma NoDup_filter_fst {A B} (f : A * B -> bool) (l : list (A * B)) :
    NoDup (map fst l) -> NoDup (map fst (filter f l)).
  Proof.
    induction l as [|x l IH]; intro H; simpl; [constructor|].
    simpl in H. inversion H as [|x' l' Hx Hl]; subst.
    destruct (f x); simpl; [|auto]. constructor; [|auto].
    intro Hin. apply Hx. apply in_map_iff in Hin as (y & E & Hy).
    apply in_map_iff. exists y. split; [assumption|]. apply filter_In in Hy. tauto.
  Qed.

  Lemma fill_leaves_sound g fuel : forall ls cur c,
    (forall q leaf, In (q, leaf) ls ->
        subtree cur q = Some leaf /\ opn leaf = true /\ kids leaf = []) ->
    NoDup (map fst ls) ->
    (forall q s, subtree cur q = Some s -> opn s = true ->
        reach (lbl s) needle = false \/ In q (map fst ls)) ->
    fill_leaves reach fuel g needle ls cur = FinTree c ->
    count_nodes needle c = count_nodes needle cur /\ harmless c.
  Proof.
    induction ls as [|[p leaf] rest IH]; intros cur c Hls Hnd Hopen H; simpl in H.
    - inversion H; subst c. split; [reflexivity|].
      intros q s Hs Ho. destruct (Hopen q s Hs Ho) as [Hr|[]]. assumption.
    - destruct (few reach fuel g needle leaf) as [e| | |x] eqn:Ef; try discriminate.
      destruct (replace_path cur p e) as [cur'|x] eqn:Er; [|discriminate].
      destruct (Hls p leaf (or_introl eq_refl)) as (Hp & Hpo & Hpk).
      assert (Hshl : shape_ok leaf = true).
      { destruct leaf as [l i o ks]. simpl in Hpo, Hpk. subst o ks. reflexivity. }
      destruct (few_sound g fuel leaf e Hshl Ef) as (_ & _ & Hce & Hhe).
      destruct (replace_ok_facts needle p cur e cur' Er) as (old & Hold & Hcnt & Hsub & Hdiv & Hnew).
      rewrite Hp in Hold. inversion Hold; subst old; clear Hold.
      inversion Hnd as [|p' rest' Hpn Hnd']; subst.
      assert (Hdv : forall q leaf', In (q, leaf') rest -> diverge p q).
      { intros q leaf' Hin. destruct (Hls q leaf' (or_intror Hin)) as (Hq & _ & Hqk).
        eapply leaves_diverge; try eassumption.
        intro E. subst q. apply Hpn. apply in_map_iff. exists (p, leaf'). auto. }
      destruct (IH cur' c) as [Hc Hh]; try assumption.
      + intros q leaf' Hin. destruct (Hls q leaf' (or_intror Hin)) as (Hq & Hqo & Hqk).
        rewrite (Hdiv q (Hdv q leaf' Hin)). auto.
      + intros q s Hs Ho. destruct (Hnew q s Hs Ho) as [(q' & -> & Hq')|[Hd Hq]].
        * left. eapply Hhe; eassumption.
        * destruct (Hopen q s Hq Ho) as [Hr|[E|Hin]]; auto.
          simpl in E. subst q. exfalso. eapply diverge_irrefl. eassumption.
      + split; [|assumption]. rewrite Hc. lia.
  Qed.

  (* count_result_sound *)
  Theorem finish_candidate_sound g fuel cand c :
    shape_ok cand = true ->
    finish_candidate reach fuel g needle cand = FinTree c ->
    count_nodes needle c = count_nodes needle cand /\ more_possible reach needle c = false.
  Proof.
    intros Hsh H. unfold finish_candidate in H.
    set (ls := filter (fun pl : path * tree => reach (lbl (snd pl)) needle) (open_leaves_at cand [])) in H.
    destruct (fill_leaves_sound g fuel ls cand c) as [Hc Hh]; try eassumption; unfold ls.
    - intros q leaf Hin. apply filter_In in Hin as [Hin _].
      apply ola_sound in Hin as (q' & -> & Hs & Ho). simpl. split; [assumption|]. split; [assumption|].
      pose proof (subtree_shape_ok _ _ _ Hsh Hs) as Hl. destruct leaf as [l i o ks].
      simpl in Ho. subst o. simpl in Hl. destruct ks; [reflexivity|discriminate].
    - apply NoDup_filter_fst. apply ola_NoDup.
    - intros q s Hs Ho. destruct (reach (lbl s) needle) eqn:Er; [|left; reflexivity]. right.
      apply in_map_iff. exists (q, s). split; [reflexivity|]. apply filter_In. split.
      + apply (ola_complete q cand [] s Hs Ho).
      + assumption.
    - split; [assumption|]. apply not_true_is_false. intro E. unfold more_possible in E.
      apply existsb_exists in E as (l & Hl & Hr). apply open_labels_spec in Hl as (p & s & Hs & Ho & <-).
      rewrite (Hh p s Hs Ho) in Hr. discriminate.
  Qed.

  Corollary finish_candidate_target_met g fuel cand c :
    shape_ok cand = true ->
    finish_candidate reach fuel g needle cand = FinTree c ->
    count_target_met reach needle (occurrences needle cand) c.
  Proof.
    intros Hsh H. apply meets_count_spec. unfold meets_count.
    destruct (finish_candidate_sound g fuel cand c Hsh H) as [Hc Hm].
    rewrite Hc, Hm, count_nodes_spec, Nat.eqb_refl. reflexivity.
  Qed.
End Few.

Lemma wf_tree_shape_ok g t : wf_tree g t -> shape_ok t = true.
Proof.
  induction t as [l i o ks IH] using tree_ind'. intro H.
  inversion H as [A j HA Hd | w j Hw | A j ks' HA Hne Hal Hall | A j HA He | A j j' HA He]; subst;
    try reflexivity.
  simpl. rewrite Forall_forall in *. apply forallb_forall. intros c Hc. apply IH; auto.
Qed.

(* non-vacuity: grammar <a> ::= <b><a> | "",  <b> ::= "x" | "yy"; needle <b>; <a> reaches <b> and <a>.
   The candidate <a>(<b>("x"), <a> open) has one needle and an open leaf that reaches the needle;
   find_expansion_without_needle closes it with the empty alternative. *)
Definition fc_reach : str -> str -> bool := reach_of [(ex_A, ex_B); (ex_A, ex_A)].
Definition fc_cand : tree :=
  Node ex_A 1%N false [Node ex_B 2%N false [Node [120]%N 3%N false []]; Node ex_A 4%N true []].

Example finish_candidate_ex :
  shape_ok fc_cand = true /\ more_possible fc_reach ex_B fc_cand = true /\
  finish_candidate fc_reach 10 ex_g ex_B fc_cand =
    FinTree (Node ex_A 1%N false [Node ex_B 2%N false [Node [120]%N 3%N false []];
                                  Node ex_A 4%N false []]).
Proof. vm_compute. auto. Qed.
