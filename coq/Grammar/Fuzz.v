(* C12 — model of isla.fuzzer.GrammarFuzzer / GrammarCoverageFuzzer.expand_tree as a
   nondeterministic transition system over derivation trees (no proofs in this file).

   Python (src/isla/fuzzer.py), as it is:
     expand_tree(tree): three phases (max-cost until min_nonterminals, random until
       max_nonterminals, min-cost until closed); every phase is
         while <limit not reached> and tree.is_open(): tree = expand_tree_once(tree)
       and the last phase has no limit, so the loop exits exactly when the tree is closed.
     expand_tree_once(tree): if tree.children is None: return expand_node(tree)
       else pick a child c with c.is_open() and return
       tree.replace_path((i,), expand_tree_once(c))          -- parent keeps value AND id
     expand_node_*(node): pick ONE alternative of grammar[node.value] (by cost / coverage /
       random.randrange -- abstracted here: ANY alternative) and
       return DerivationTree(symbol, expansion_to_children(alternative))   -- FRESH id
     expansion_to_children(e): "" -> [DerivationTree("", [])]
       else one child per token of RE_NONTERMINAL.split(e): nonterminal tokens open
       (children None), the others closed (children []); all with fresh ids.

   The model works on the canonical grammar (helpers.canonical = the same token split), so
   an alternative is the list of its tokens and the empty alternative is [].
   Abstracted (hence strength "partial"): WHICH open leaf and WHICH alternative are chosen
   (cost functions, coverage bookkeeping, random), and the fresh ids (any N). *)
From ISLA Require Export Grammar.

(* ---- what is_valid_grammar guarantees and the fuzzer relies on ---- *)
Definition uses_defined (g : grammar) : Prop :=
  forall A a s, In a (alts g A) -> In s a -> is_nt s = true -> defined g s = true.
Definition nonempty_alts (g : grammar) : Prop :=
  forall A, defined g A = true -> alts g A <> [].

Definition uses_definedb (g : grammar) : bool :=
  forallb (fun r => forallb (fun a => forallb (fun s => negb (is_nt s) || defined g s) a) (snd r)) g.
Definition nonempty_altsb (g : grammar) : bool :=
  forallb (fun r => match snd r with [] => false | _ => true end) g.
(* keys are nonterminals (dict keys of a valid grammar) *)
Definition keys_ntb (g : grammar) : bool := forallb (fun r => is_nt (fst r)) g.

(* ---- expansion_to_children ---- *)
Definition mk_child (s : str) (j : N) : tree := Node s j (is_nt s) [].

Fixpoint children_of (a : alt) (ids : list N) : list tree :=
  match a with
  | [] => []
  | s :: a' => mk_child s (hd 0%N ids) :: children_of a' (tl ids)
  end.

Definition expansion_to_children (a : alt) (ids : list N) : list tree :=
  match a with
  | [] => [Node [] (hd 0%N ids) false []]
  | _ => children_of a ids
  end.

(* ---- one step of expand_tree_once: any open leaf, any alternative, any fresh ids ---- *)
Inductive expand1 (g : grammar) : tree -> tree -> Prop :=
| e_here : forall A i j a ids, In a (alts g A) ->
    expand1 g (Node A i true []) (Node A j false (expansion_to_children a ids))
| e_child : forall l i ks1 k k' ks2, expand1 g k k' ->
    expand1 g (Node l i false (ks1 ++ k :: ks2)) (Node l i false (ks1 ++ k' :: ks2)).

Inductive expand_star (g : grammar) : tree -> tree -> Prop :=
| es_refl : forall t, expand_star g t t
| es_step : forall t u v, expand1 g t u -> expand_star g u v -> expand_star g t v.

(* expand_tree: iterate until `not tree.is_open()` (the exit condition of the last loop,
   also asserted by the code: possible_expansions(tree) == 0) *)
Definition fuzz_expand (g : grammar) (t t' : tree) : Prop :=
  expand_star g t t' /\ is_openT t' = false.

(* ---- executable acceptance procedure for observed (input, output) pairs ---- *)
(* out is accepted as a completion of t: identical (label, id, arity) wherever t is
   expanded; an open leaf of t is replaced by a valid tree with the same label *)
Fixpoint is_completionb (g : grammar) (t t' : tree) {struct t} : bool :=
  match t with
  | Node l i o ks =>
      if o then match ks with [] => str_eqb (lbl t') l && wf_treeb g t' | _ => false end
      else match t' with
           | Node l' i' o' ks' =>
               str_eqb l' l && N.eqb i' i && negb o' &&
               (fix all2 (ks ks' : list tree) {struct ks} : bool :=
                  match ks, ks' with
                  | [], [] => true
                  | k :: r, k' :: r' => is_completionb g k k' && all2 r r'
                  | _, _ => false
                  end) ks ks'
           end
  end.

(* the acceptance used by the correspondence for GrammarCoverageFuzzer.expand_tree *)
Definition accept_expand (g : grammar) (t out : tree) : bool :=
  wf_treeb g out && closedb out && is_completionb g t out && str_eqb (lbl out) (lbl t).

(* ---- min-cost phase: the cost function is external (Python symbol_cost); the model of
        the phase is expand1 restricted to alternatives whose children cost less ---- *)
Definition alt_cost (cost : str -> nat) (a : alt) : nat :=
  list_sum (map (fun s => if is_nt s then cost s else 0) a).

Fixpoint open_cost (cost : str -> nat) (t : tree) : nat :=
  match t with
  | Node l _ o ks => (if o then cost l else 0) + list_sum (map (open_cost cost) ks)
  end.

Inductive expand1_min (g : grammar) (cost : str -> nat) : tree -> tree -> Prop :=
| em_here : forall A i j a ids, In a (alts g A) -> alt_cost cost a < cost A ->
    expand1_min g cost (Node A i true []) (Node A j false (expansion_to_children a ids))
| em_child : forall l i ks1 k k' ks2, expand1_min g cost k k' ->
    expand1_min g cost (Node l i false (ks1 ++ k :: ks2)) (Node l i false (ks1 ++ k' :: ks2)).

Inductive steps_min (g : grammar) (cost : str -> nat) : nat -> tree -> tree -> Prop :=
| sm_0 : forall t, steps_min g cost 0 t t
| sm_S : forall n t u v, expand1_min g cost t u -> steps_min g cost n u v -> steps_min g cost (S n) t v.

(* checker for the hypothesis on the external cost function: every alternative that the
   min-cost phase can pick (minimal expansion cost, given as `ecost`) is cheaper than its
   symbol.  Evaluated by the harness on Python's symbol_cost / expansion_cost tables. *)
Definition min_alts (ecost : str -> alt -> nat) (A : str) (al : list alt) : list alt :=
  let m := fold_right Nat.min (match al with a :: _ => ecost A a | [] => 0 end) (map (ecost A) al) in
  filter (fun a => Nat.eqb (ecost A a) m) al.

Definition cost_okb (g : grammar) (cost : str -> nat) (ecost : str -> alt -> nat) : bool :=
  forallb (fun r => match min_alts ecost (fst r) (snd r) with
                    | [] => false
                    | ms => forallb (fun a => Nat.ltb (alt_cost cost a) (cost (fst r))) ms
                    end) g.

(* tables of Python's symbol_cost(A) and expansion_cost(e, {A}) as functions *)
Fixpoint cost_of (tbl : list (str * nat)) (s : str) : nat :=
  match tbl with
  | [] => 0
  | (k, c) :: tbl' => if str_eqb s k then c else cost_of tbl' s
  end.

Fixpoint ecost_in (tbl : list (alt * nat)) (a : alt) : nat :=
  match tbl with
  | [] => 0
  | (b, c) :: tbl' => if alt_eqb a b then c else ecost_in tbl' a
  end.

Fixpoint ecost_of (tbl : list (str * list (alt * nat))) (A : str) (a : alt) : nat :=
  match tbl with
  | [] => 0
  | (k, l) :: tbl' => if str_eqb A k then ecost_in l a else ecost_of tbl' A a
  end.

(* class of a recorded defect: the start symbol occurs on a right-hand side
   (GrammarCoverageFuzzer.max_expansion_coverage asserts with a bounded depth) *)
Definition start_sym : str := [60; 115; 116; 97; 114; 116; 62]%N.
Definition K_start_rhs (g : grammar) : bool :=
  existsb (fun r => existsb (fun a => existsb (str_eqb start_sym) a) (snd r)) g.
