(* C14 — model of the helpers that build trees to a target.

   Python (src/isla):
     helpers.compute_nullable_nonterminals      -> nullables
     helpers.get_expansions                     -> term_exps / nonterm_exps
     solver.create_fixed_length_tree            -> cflt   (DFS over (tree, curr_len, open_leaves))
     derivation_tree.replace_path               -> replace_path   (structure only, ids = 0)
     isla_predicates.count (decision skeleton)  -> count_decide, count_var
     isla_predicates.count (one popped candidate of the completion loop) -> finish_candidate
     isla_predicates.find_expansion_without_needle -> few
     derivation_tree.expand_one_step            -> expand_one_step

   No proofs here.  `random.choice` is an explicit oracle stream (list of chosen indices);
   `GrammarGraph.reachable` is an explicit function argument `reach`;
   `insert_tree` is abstract: its results are the `candidate` argument of finish_candidate. *)
From ISLA Require Export Grammar Outcome.
From Coq Require Import Arith ZArith.

Definition mem (s : str) (l : list str) : bool := existsb (str_eqb s) l.

(* ------------------------------------------------------------------ *)
(* helpers.compute_nullable_nonterminals                               *)
(*   result = {nt | some expansion is empty};                          *)
(*   repeat: add nt if some expansion has all its elements in result.  *)
(* The Python loop adds keys while iterating (any order); the least    *)
(* fixpoint does not depend on the order.  Here: |g| rounds, each round *)
(* adds every key that qualifies w.r.t. the previous round.            *)
(* ------------------------------------------------------------------ *)
Definition keys (g : grammar) : list str := map fst g.

Definition is_nil {A} (l : list A) : bool := match l with [] => true | _ => false end.

Definition null_init (g : grammar) : list str :=
  filter (fun k => existsb is_nil (alts g k)) (keys g).

Definition null_ok (g : grammar) (cur : list str) (k : str) : bool :=
  existsb (fun a => forallb (fun e => mem e cur) a) (alts g k).

Definition null_step (g : grammar) (cur : list str) : list str :=
  cur ++ filter (fun k => negb (mem k cur) && null_ok g cur k) (keys g).

Fixpoint iter {A} (n : nat) (f : A -> A) (x : A) : A :=
  match n with 0 => x | S n' => iter n' f (f x) end.

Definition nullables (g : grammar) : list str := iter (length g) (null_step g) (null_init g).

(* ------------------------------------------------------------------ *)
(* helpers.get_expansions                                              *)
(* ------------------------------------------------------------------ *)
Definition is_term_exp (a : alt) : bool :=
  match a with [x] => negb (is_nt x) | _ => false end.

Definition term_exps (g : grammar) (A : str) : list alt := filter is_term_exp (alts g A).
(* `expansion not in terminal_expansions` (list equality) = not itself a terminal expansion *)
Definition nonterm_exps (g : grammar) (A : str) : list alt :=
  filter (fun a => negb (is_term_exp a)) (alts g A).

(* sorted(expansions, key = number of nonterminal elements): stable *)
Definition count_nt (a : alt) : nat := length (filter is_nt a).

Fixpoint insert_by (a : alt) (l : list alt) : list alt :=
  match l with
  | [] => [a]
  | b :: l' => if count_nt a <=? count_nt b then a :: b :: l' else b :: insert_by a l'
  end.

Definition sort_exps (l : list alt) : list alt := fold_right insert_by [] l.

(* random.choice(terminal_expansions): the oracle stream holds the chosen indices *)
Definition choose (o : list nat) (term : list alt) : list alt * list nat :=
  match term with
  | [] => ([], o)
  | d :: _ => match o with
              | [] => ([d], [])
              | i :: o' => ([nth (i mod length term) term d], o')
              end
  end.

(* ------------------------------------------------------------------ *)
(* DerivationTree.replace_path (structure; retain_id = False)          *)
(* ------------------------------------------------------------------ *)
Fixpoint replace_path (t : tree) (p : path) (r : tree) : res tree :=
  match p with
  | [] => Ok r
  | i :: p' =>
      match t with
      | Node l id o ks =>
          if o then Raise TypeErr                      (* None[idx] *)
          else match nth_error ks i with
               | None => Raise IndexErr
               | Some c =>
                   bind (replace_path c p' r)
                        (fun c' => Ok (Node l id false (firstn i ks ++ c' :: skipn (S i) ks)))
               end
      end
  end.

(* ------------------------------------------------------------------ *)
(* solver.create_fixed_length_tree                                     *)
(* ------------------------------------------------------------------ *)
Definition frame := (tree * nat * list (path * str))%type.

(* DerivationTree(elem, None if is_nonterminal(elem) else ()) *)
Definition mk_child (e : str) : tree := Node e 0%N (is_nt e) [].

(* len(child.value) if child.children == () else (1 if child.value not in nullable else 0) *)
Definition child_len (NU : list str) (e : str) : nat :=
  if is_nt e then (if mem e NU then 0 else 1) else length e.

Definition nn (NU : list str) (A : str) : nat := if mem A NU then 0 else 1.

Fixpoint new_leaves (p : path) (i : nat) (e : alt) : list (path * str) :=
  match e with
  | [] => []
  | x :: e' => (if is_nt x then [(p ++ [i], x)] else []) ++ new_leaves p (S i) e'
  end.

Fixpoint map_res {A B} (f : A -> res B) (l : list A) : res (list B) :=
  match l with
  | [] => Ok []
  | x :: l' => bind (f x) (fun y => bind (map_res f l') (fun ys => Ok (y :: ys)))
  end.

(* one pushed stack entry: leaf number idx (at path p, label A) expanded by e *)
Definition push_frame (NU : list str) (fr : frame) (idx : nat) (p : path) (A : str) (e : alt)
  : res frame :=
  let '(t, cl, ls) := fr in
  bind (replace_path t p (Node A 0%N false (map mk_child e)))
       (fun t' => Ok (t',
                      cl + list_sum (map (child_len NU) e) - nn NU A,
                      firstn idx ls ++ new_leaves p 0 e ++ skipn (S idx) ls)).

(* body of `for idx, (path, leaf) in ...` for one leaf: frames in sorted-expansion order *)
Definition expand_leaf (g : grammar) (NU : list str) (fr : frame) (idx : nat)
           (leaf : path * str) (o : list nat) : res (list frame * list nat) :=
  let '(p, A) := leaf in
  if negb (defined g A) then Raise KeyErr            (* canonical_grammar[leaf.value] *)
  else
    let '(ch, o') := choose o (term_exps g A) in
    bind (map_res (push_frame NU fr idx p A) (sort_exps (nonterm_exps g A ++ ch)))
         (fun fs => Ok (fs, o')).

(* leaves are visited with DESCENDING index (reversed(list(enumerate(open_leaves)))) and the
   oracle is consumed in that order; the frames of leaf 0 / first sorted expansion are pushed
   last, i.e. end up on top of the stack: acc = frames(0) ++ frames(1) ++ ... *)
Fixpoint expand_desc (g : grammar) (NU : list str) (fr : frame)
         (ils : list (nat * (path * str))) (o : list nat) (acc : list frame)
  : res (list frame * list nat) :=
  match ils with
  | [] => Ok (acc, o)
  | (idx, leaf) :: rest =>
      bind (expand_leaf g NU fr idx leaf o)
           (fun r => expand_desc g NU fr rest (snd r) (fst r ++ acc))
  end.

Definition enumerate {A} (l : list A) : list (nat * A) := combine (seq 0 (length l)) l.

Definition expand_frame (g : grammar) (NU : list str) (fr : frame) (o : list nat)
  : res (list frame * list nat) :=
  expand_desc g NU fr (rev (enumerate (snd fr))) o [].

Inductive cres := Found (t : tree) | NotFound | OutOfFuel | Err (e : exn).

(* the `while stack:` loop; head of the list = top of the stack *)
Fixpoint cflt_loop (fuel : nat) (g : grammar) (NU : list str) (n : nat)
         (stack : list frame) (o : list nat) : cres :=
  match fuel with
  | 0 => OutOfFuel
  | S f =>
      match stack with
      | [] => NotFound
      | (t, cl, ls) :: st =>
          match ls with
          | [] => if cl =? n then Found t else cflt_loop f g NU n st o
          | _ :: _ =>
              if n <? cl then cflt_loop f g NU n st o
              else match expand_frame g NU (t, cl, ls) o with
                   | Raise e => Err e
                   | Ok (fs, o') => cflt_loop f g NU n (fs ++ st) o'
                   end
          end
      end
  end.

Definition cflt_with (fuel : nat) (g : grammar) (NU : list str) (A : str) (n : nat) (o : list nat)
  : cres :=
  cflt_loop fuel g NU n [(Node A 0%N true [], nn NU A, [([], A)])] o.

Definition cflt (fuel : nat) (g : grammar) (A : str) (n : nat) (o : list nat) : cres :=
  cflt_with fuel g (nullables g) A n o.

(* ------------------------------------------------------------------ *)
(* comparison helpers for the correspondence (ids ignored)             *)
(* ------------------------------------------------------------------ *)
Fixpoint tree_seqb (a b : tree) : bool :=
  match a, b with
  | Node l1 _ o1 k1, Node l2 _ o2 k2 =>
      str_eqb l1 l2 && Bool.eqb o1 o2 &&
      (fix go (x y : list tree) : bool :=
         match x, y with
         | [], [] => true
         | c :: x', d :: y' => tree_seqb c d && go x' y'
         | _, _ => false
         end) k1 k2
  end.

Definition cres_eqb (a b : cres) : bool :=
  match a, b with
  | Found s, Found t => tree_seqb s t
  | NotFound, NotFound => true
  | OutOfFuel, OutOfFuel => true
  | Err e, Err f => exn_eqb e f
  | _, _ => false
  end.

Definition set_eqb (a b : list str) : bool :=
  forallb (fun x => mem x b) a && forallb (fun x => mem x a) b.

(* the property, as a decision on an observed output (uses the verified checker wf_treeb) *)
Definition meets_length (g : grammar) (A : str) (n : nat) (t : tree) : bool :=
  wf_treeb g t && closedb t && str_eqb (lbl t) A && (length (yield t) =? n).

(* ================================================================== *)
(* isla_predicates.count                                               *)
(* ================================================================== *)

(* len(in_tree.filter(lambda t: t.value == needle)) : all nodes, open or not *)
Fixpoint count_nodes (needle : str) (t : tree) : nat :=
  match t with
  | Node l _ _ ks => (if str_eqb l needle then 1 else 0) + list_sum (map (count_nodes needle) ks)
  end.

(* [node.value for _, node in tree.open_leaves()]  (children is None), pre-order *)
Fixpoint open_labels (t : tree) : list str :=
  match t with
  | Node l _ o ks => (if o then [l] else []) ++ flat_map open_labels ks
  end.

(* [leaf.value for _, leaf in tree.leaves()]  (not children: open, or closed without children) *)
Fixpoint leaf_labels (t : tree) : list str :=
  match t with
  | Node l _ o ks => match ks with [] => [l] | _ => flat_map leaf_labels ks end
  end.

Section Count.
  Variable reach : str -> str -> bool.     (* reachable(graph, fr, to): NOT reflexive *)

  Definition more_possible (needle : str) (t : tree) : bool :=
    existsb (fun l => reach l needle) (open_labels t).

  (* outcome of the part of count() before the insertion search, negate = False *)
  Inductive cdec := CFalse | CTrue | CNotReady | CBind (n : nat) | CSearch.

  (* num is a Variable *)
  Definition count_var (needle : str) (t : tree) : cdec :=
    if more_possible needle t then CNotReady else CBind (count_nodes needle t).

  (* num is a tree / string with integer value tgt *)
  Definition count_decide (needle : str) (t : tree) (tgt : Z) : cdec :=
    let occ := count_nodes needle t in
    if (tgt <? 0)%Z || (tgt <? Z.of_nat occ)%Z then CFalse
    else if negb (more_possible needle t) then
           (if (Z.of_nat occ =? tgt)%Z then CTrue else CFalse)
    else if (Z.of_nat occ =? tgt)%Z then CNotReady
    else CSearch.

  (* ---- DerivationTree.expand_one_step: ALL open leaves expanded at once, every
          combination (itertools.product over the leaves in pre-order) ---- *)
  Definition exp_child (e : str) : tree := Node e 0%N (is_nt e) [].

  (* product of the alternatives for a list of sibling subtrees *)
  Fixpoint prod_lists {A} (ls : list (list A)) : list (list A) :=
    match ls with
    | [] => [[]]
    | xs :: rest => flat_map (fun x => map (cons x) (prod_lists rest)) xs
    end.

  Fixpoint eos (g : grammar) (t : tree) : res (list tree) :=
    match t with
    | Node l i o ks =>
        if o then
          if negb (defined g l) then Raise KeyErr
          else Ok (map (fun e => Node l i false (map exp_child e)) (alts g l))
        else
          bind ((fix go (ks : list tree) : res (list (list tree)) :=
                   match ks with
                   | [] => Ok []
                   | k :: ks' => bind (eos g k) (fun a => bind (go ks') (fun b => Ok (a :: b)))
                   end) ks)
               (fun alts_per_kid => Ok (map (fun ks' => Node l i false ks') (prod_lists alts_per_kid)))
    end.

  (* expand_one_step returns [] when there is no open leaf *)
  (* ... and asserts that there is at least one combination otherwise *)
  Definition expand_one_step (g : grammar) (t : tree) : res (list tree) :=
    if is_openT t then
      match eos g t with
      | Ok [] => Raise AssertErr
      | r => r
      end
    else Ok [].

  (* ---- find_expansion_without_needle: stack of trees, pop from the END ---- *)
  (* result of scanning `for new_tree in ...expand_one_step(...)`:
     inl t = return t;  inr l = trees appended to the stack (in order) *)
  Fixpoint few_scan (needle : str) (news : list tree) (acc : list tree) : tree + list tree :=
    match news with
    | [] => inr acc
    | t :: rest =>
        if existsb (fun l => str_eqb l needle) (leaf_labels t) then few_scan needle rest acc
        else if forallb (fun l => negb (reach l needle)) (open_labels t) then inl t
        else few_scan needle rest (acc ++ [t])
    end.

  Inductive fres := FSome (t : tree) | FNone | FFuel | FErr (e : exn).

  (* stack: last element = top (Python list.pop()) ; we keep it reversed: head = top *)
  Fixpoint few_loop (fuel : nat) (g : grammar) (needle : str) (stack : list tree) : fres :=
    match fuel with
    | 0 => FFuel
    | S f =>
        match stack with
        | [] => FNone
        | t :: st =>
            match expand_one_step g t with
            | Raise e => FErr e
            | Ok news =>
                match few_scan needle news [] with
                | inl r => FSome r
                | inr pushed => few_loop f g needle (rev pushed ++ st)
                end
            end
        end
    end.

  Definition few (fuel : nat) (g : grammar) (needle : str) (root : tree) : fres :=
    few_loop fuel g needle [root].

  (* ---- one iteration of `while candidates:` for a popped candidate whose needle count
          equals the target: either it is returned, or its needle-reaching leaves are
          replaced by needle-free expansions, or it is dropped (None) ---- *)
  Fixpoint open_leaves_at (t : tree) (p : path) : list (path * tree) :=
    match t with
    | Node l i o ks =>
        (if o then [(p, t)] else []) ++
        (fix go (j : nat) (ks : list tree) : list (path * tree) :=
           match ks with
           | [] => []
           | c :: ks' => open_leaves_at c (p ++ [j]) ++ go (S j) ks'
           end) 0 ks
    end.

  Inductive fin := FinTree (t : tree) | FinDrop | FinFuel | FinErr (e : exn).

  Fixpoint fill_leaves (fuel : nat) (g : grammar) (needle : str)
           (ls : list (path * tree)) (cur : tree) : fin :=
    match ls with
    | [] => FinTree cur
    | (p, leaf) :: rest =>
        match few fuel g needle leaf with
        | FSome e => match replace_path cur p e with
                     | Ok cur' => fill_leaves fuel g needle rest cur'
                     | Raise x => FinErr x
                     end
        | FNone => FinDrop
        | FFuel => FinFuel
        | FErr x => FinErr x
        end
    end.

  Definition finish_candidate (fuel : nat) (g : grammar) (needle : str) (cand : tree) : fin :=
    fill_leaves fuel g needle
      (filter (fun pl => reach (lbl (snd pl)) needle) (open_leaves_at cand [])) cand.

  (* the property of a count result {in_tree: c}, as a decision (observed outputs) *)
  Definition meets_count (needle : str) (tgt : nat) (c : tree) : bool :=
    (count_nodes needle c =? tgt) && negb (more_possible needle c).
End Count.

(* reachability table passed by the harness: association list (from, to) -> bool *)
Definition reach_of (tbl : list (str * str)) (a b : str) : bool :=
  existsb (fun p => str_eqb (fst p) a && str_eqb (snd p) b) tbl.
