(* Context-free grammars in ISLa's canonical form and validity of derivation trees.
   Python: CanonicalGrammar = Dict[str, List[List[str]]]; a symbol is a nonterminal iff
   is_nonterminal(symbol) (model: is_nt).  The empty alternative is []. *)
From ISLA Require Export Tree.

Definition alt := list str.
Definition grammar := list (str * list alt).

Fixpoint alts (g : grammar) (A : str) : list alt :=
  match g with
  | [] => []
  | (B, al) :: g' => if str_eqb A B then al else alts g' A
  end.

Definition defined (g : grammar) (A : str) : bool := existsb (fun r => str_eqb A (fst r)) g.

(* ---- specification: derivations and languages (textbook) ---- *)
Inductive derives (g : grammar) : list str -> str -> Prop :=
| d_nil : derives g [] []
| d_t : forall w rest u, is_nt w = false -> derives g rest u -> derives g (w :: rest) (w ++ u)
| d_nt : forall A al rest u v, is_nt A = true -> In al (alts g A) ->
    derives g al u -> derives g rest v -> derives g (A :: rest) (u ++ v).

Definition L (g : grammar) (A : str) (w : str) : Prop := derives g [A] w.

(* ---- specification: valid derivation trees ---- *)
(* Both shapes of an epsilon expansion that ISLa produces are admitted:
   children () from the parser, children (("", ()),) from the fuzzer. *)
Inductive wf_tree (g : grammar) : tree -> Prop :=
| wf_open : forall A i, is_nt A = true -> defined g A = true -> wf_tree g (Node A i true [])
| wf_term : forall w i, is_nt w = false -> wf_tree g (Node w i false [])
| wf_inner : forall A i ks, is_nt A = true -> ks <> [] -> In (map lbl ks) (alts g A) ->
    Forall (wf_tree g) ks -> wf_tree g (Node A i false ks)
| wf_eps_parser : forall A i, is_nt A = true -> In [] (alts g A) -> wf_tree g (Node A i false [])
| wf_eps_fuzzer : forall A i j, is_nt A = true -> In [] (alts g A) ->
    wf_tree g (Node A i false [Node [] j false []]).

(* ---- executable validity checker (the oracle of the correspondence checks) ---- *)
Fixpoint alt_eqb (a b : alt) : bool :=
  match a, b with
  | [], [] => true
  | x :: a', y :: b' => str_eqb x y && alt_eqb a' b'
  | _, _ => false
  end.

Definition has_alt (g : grammar) (A : str) (a : alt) : bool := existsb (alt_eqb a) (alts g A).

Definition is_eps_child (t : tree) : bool :=
  match t with Node [] _ false [] => true | _ => false end.

Fixpoint wf_treeb (g : grammar) (t : tree) : bool :=
  match t with
  | Node l _ o ks =>
      if o then is_nt l && defined g l && match ks with [] => true | _ => false end
      else match ks with
           | [] => negb (is_nt l) || has_alt g l []
           | _ => is_nt l &&
                  ((has_alt g l (map lbl ks) && forallb (wf_treeb g) ks)
                   || (has_alt g l [] && match ks with [k] => is_eps_child k | _ => false end))
           end
  end.

Definition closedb (t : tree) : bool := negb (is_openT t).
