(* C10 — COMPLETENESS of the Earley model (Grammar/Earley.v):
   (1) nullable() contains every symbol that derives the empty string;
   (2) the finished chart is closed under predict / scan / complete (whatever the fuel was: a
       chart that was delivered at all is closed);
   (3) derivable => item in the chart (induction over the derivation, Aycock-Horspool advance for
       nullable symbols), hence every member of the language is accepted and
       `Raise SyntaxErr` is only answered for non-members.
   Nothing here needs a condition on cyclic / ambiguous grammars: the recogniser is complete for
   every canonical grammar. *)
From ISLA Require Import Grammar GrammarFacts Earley EarleyFacts EarleyPrune EarleyTop.
From Coq Require Import Lia PeanoNat.

(* ------------------------------------------------------------------ *)
(* columns: add / add_all                                              *)
(* ------------------------------------------------------------------ *)
Lemma item_eqb_eq a b : item_eqb a b = true <-> a = b.
Proof.
  unfold item_eqb. destruct a as [n e d o], b as [n' e' d' o']; simpl. split.
  - intro H. apply andb_true_iff in H as [H Ho]. apply andb_true_iff in H as [H Hd].
    apply andb_true_iff in H as [Hn He].
    apply str_eqb_eq in Hn. apply alt_eqb_eq in He. apply Nat.eqb_eq in Hd. apply Nat.eqb_eq in Ho.
    subst. reflexivity.
  - intro H. inversion H; subst. rewrite str_eqb_refl, !Nat.eqb_refl.
    assert (E : alt_eqb e' e' = true) by (apply alt_eqb_eq; reflexivity). rewrite E. reflexivity.
Qed.

Lemma add_In col it x : In x (add col it) <-> In x col \/ x = it.
Proof.
  unfold add. destruct (existsb (item_eqb it) col) eqn:E.
  - split; [auto|]. intros [H|H]; [exact H|]. subst x.
    apply existsb_exists in E as (y & Hy & Ey). apply item_eqb_eq in Ey. subst y. exact Hy.
  - rewrite in_app_iff. simpl. split.
    + intros [H|[H|[]]]; [left; exact H | right; symmetry; exact H].
    + intros [H|H]; [left; exact H | right; left; symmetry; exact H].
Qed.

Lemma add_ext col it : exists extra, add col it = col ++ extra.
Proof.
  unfold add. destruct (existsb (item_eqb it) col).
  - exists []. rewrite app_nil_r. reflexivity.
  - exists [it]. reflexivity.
Qed.

Lemma add_all_In its : forall col x, In x (add_all col its) <-> In x col \/ In x its.
Proof.
  unfold add_all. induction its as [|y its IH]; intros col x; simpl.
  - split; [auto | intros [H|[]]; exact H].
  - rewrite IH, add_In. split.
    + intros [[H|H]|H]; auto.
    + intros [H|[H|H]]; auto.
Qed.

Lemma add_all_ext its : forall col, exists extra, add_all col its = col ++ extra.
Proof.
  unfold add_all. induction its as [|y its IH]; intros col; simpl.
  - exists []. rewrite app_nil_r. reflexivity.
  - destruct (add_ext col y) as (e1 & E1). destruct (IH (add col y)) as (e2 & E2).
    exists (e1 ++ e2). rewrite E2, E1, app_assoc. reflexivity.
Qed.

(* ------------------------------------------------------------------ *)
(* nullable is complete                                                *)
(* ------------------------------------------------------------------ *)
Lemma alts_rules (cg : grammar) A e : In e (alts cg A) -> In (A, e) (rules cg).
Proof.
  unfold rules. induction cg as [|[B al] cg IH]; simpl; [contradiction|].
  destruct (str_eqb A B) eqn:E.
  - apply str_eqb_eq in E. subst B. intro H. apply in_or_app. left.
    apply in_map_iff. exists e. split; [reflexivity | exact H].
  - intro H. apply in_or_app. right. apply IH. exact H.
Qed.

Lemma rules_key (cg : grammar) A e : In (A, e) (rules cg) -> In A (map fst cg).
Proof.
  intro H. destruct (rules_in cg A e H) as (al & Hal & _).
  apply in_map_iff. exists (A, al). split; [reflexivity | exact Hal].
Qed.

Section NullComplete.
  Variable rs : list (str * alt).

  Definition null_step (ns : list str) (r : str * alt) : list str :=
    if forallb (fun t => mem t ns) (snd r) && negb (mem (fst r) ns) then ns ++ [fst r] else ns.

  Lemma null_pass_fold rs' ns : null_pass rs' ns = fold_left null_step rs' ns.
  Proof. reflexivity. Qed.

  Lemma null_pass_ext rs' : forall ns, exists extra, null_pass rs' ns = ns ++ extra.
  Proof.
    induction rs' as [|r rs' IH]; intros ns; rewrite null_pass_fold; simpl.
    - exists []. rewrite app_nil_r. reflexivity.
    - rewrite <- null_pass_fold. unfold null_step at 1.
      destruct (forallb (fun t => mem t ns) (snd r) && negb (mem (fst r) ns)).
      + destruct (IH (ns ++ [fst r])) as (e & E). exists ([fst r] ++ e). rewrite E, app_assoc. reflexivity.
      + apply IH.
  Qed.

  Definition null_closed (rs' : list (str * alt)) (ns : list str) : Prop :=
    forall A e, In (A, e) rs' -> forallb (fun t => mem t ns) e = true -> mem A ns = true.

  (* a pass that does not grow the list found every rule satisfied *)
  Lemma null_pass_stable rs' : forall ns,
    length (null_pass rs' ns) = length ns -> null_closed rs' ns.
  Proof.
    induction rs' as [|r rs' IH]; intros ns Hl A e Hin Hall; [destruct Hin|].
    rewrite null_pass_fold in Hl. simpl in Hl. rewrite <- null_pass_fold in Hl.
    unfold null_step in Hl.
    destruct (forallb (fun t => mem t ns) (snd r) && negb (mem (fst r) ns)) eqn:Ec.
    - exfalso. destruct (null_pass_ext rs' (ns ++ [fst r])) as (ex & E).
      rewrite E in Hl. rewrite !app_length in Hl. simpl in Hl. lia.
    - destruct Hin as [Hr|Hin]; [|apply (IH ns Hl A e Hin Hall)].
      subst r. simpl in Ec. rewrite Hall in Ec. simpl in Ec. apply negb_false_iff in Ec. exact Ec.
  Qed.

  Lemma null_pass_fix rs' ns : length (null_pass rs' ns) = length ns -> null_pass rs' ns = ns.
  Proof.
    intro Hl. destruct (null_pass_ext rs' ns) as (ex & E). rewrite E in *.
    rewrite app_length in Hl. destruct ex as [|x ex]; [apply app_nil_r | simpl in Hl; lia].
  Qed.

  Lemma iter_fix {A} (f : A -> A) x n : f x = x -> iter n f x = x.
  Proof. intro H. induction n as [|n IH]; simpl; [reflexivity | rewrite H; exact IH]. Qed.

  (* n passes: either a closed list was reached, or the list grew n times *)
  Lemma iter_null n : forall ns,
    null_closed rs (iter n (null_pass rs) ns) \/ length ns + n <= length (iter n (null_pass rs) ns).
  Proof.
    induction n as [|n IH]; intros ns; simpl; [right; lia|].
    destruct (Nat.eq_dec (length (null_pass rs ns)) (length ns)) as [E|E].
    - left. rewrite (null_pass_fix rs ns E). rewrite iter_fix by (apply null_pass_fix; exact E).
      apply null_pass_stable. exact E.
    - destruct (IH (null_pass rs ns)) as [H|H]; [left; exact H|]. right.
      destruct (null_pass_ext rs ns) as (ex & Ex). rewrite Ex in E, H |- *. rewrite app_length in *.
      lia.
  Qed.

  (* the list stays duplicate-free and inside a fixed universe *)
  Definition null_inv (U : list str) (ns : list str) : Prop := NoDup ns /\ incl ns U.

  Lemma null_pass_inv U rs' : (forall A e, In (A, e) rs' -> In A U) ->
    forall ns, null_inv U ns -> null_inv U (null_pass rs' ns).
  Proof.
    induction rs' as [|r rs' IH]; intros HU ns Hns; [exact Hns|].
    rewrite null_pass_fold. simpl. rewrite <- null_pass_fold.
    apply IH; [intros A e H; apply (HU A e); right; exact H|].
    unfold null_step. destruct (forallb (fun t => mem t ns) (snd r) && negb (mem (fst r) ns)) eqn:Ec; [|exact Hns].
    apply andb_true_iff in Ec as [_ Ec]. apply negb_true_iff in Ec.
    destruct Hns as [Hnd Hin]. split.
    - apply NoDup_snoc; [exact Hnd|]. intro H. apply mem_In in H. congruence.
    - intros x Hx. apply in_app_or in Hx as [Hx|[Hx|[]]]; [apply Hin; exact Hx|].
      subst x. destruct r as [A e]. apply (HU A e). left; reflexivity.
  Qed.

  Lemma iter_inv {A} (P : A -> Prop) (f : A -> A) : (forall x, P x -> P (f x)) ->
    forall n x, P x -> P (iter n f x).
  Proof. intros Hf n. induction n as [|n IH]; intros x Hx; simpl; [exact Hx | apply IH, Hf, Hx]. Qed.

  Lemma iter_null_grows n ns : incl ns (iter n (null_pass rs) ns).
  Proof.
    revert ns. induction n as [|n IH]; intros ns; simpl; [apply incl_refl|].
    destruct (null_pass_ext rs ns) as (ex & E).
    eapply incl_tran; [|apply IH]. rewrite E. apply incl_appl, incl_refl.
  Qed.
End NullComplete.

Theorem nullable_closed (cg : grammar) : null_closed (rules cg) (nullable cg) /\ In [] (nullable cg).
Proof.
  unfold nullable. split; [|apply iter_null_grows; left; reflexivity].
  destruct (iter_null (rules cg) (S (length cg)) [[]]) as [H|H]; [exact H|]. exfalso.
  assert (Hinv : null_inv ([] :: map fst cg) (iter (S (length cg)) (null_pass (rules cg)) [[]])).
  { apply iter_inv.
    - apply null_pass_inv. intros A e HA. right. eapply rules_key; exact HA.
    - split; [constructor; [intros [] | constructor] | intros x [<-|[]]; left; reflexivity]. }
  destruct Hinv as [Hnd Hin]. pose proof (NoDup_incl_length Hnd Hin) as Hl.
  simpl in Hl, H. rewrite map_length in Hl. lia.
Qed.

Lemma derives_nil_all (cg : grammar) ns :
  null_closed (rules cg) ns -> In [] ns ->
  forall syms u, derives cg syms u -> u = [] -> forallb (fun t => mem t ns) syms = true.
Proof.
  intros Hc H0. induction 1 as [|t rest u Ht Hd IH|A al rest u v HA Hin Hd1 IH1 Hd2 IH2]; intro E.
  - reflexivity.
  - apply app_eq_nil in E as [E1 E2]. subst t. simpl. rewrite (IH E2), andb_true_r. apply mem_In. exact H0.
  - apply app_eq_nil in E as [E1 E2]. simpl. rewrite (IH2 E2), andb_true_r.
    apply (Hc A al); [apply alts_rules; exact Hin | apply IH1; exact E1].
Qed.

Theorem nullable_complete (cg : grammar) A : derives cg [A] [] -> mem A (nullable cg) = true.
Proof.
  intro H. destruct (nullable_closed cg) as [Hc H0].
  pose proof (derives_nil_all cg (nullable cg) Hc H0 [A] [] H eq_refl) as Hall.
  simpl in Hall. rewrite andb_true_r in Hall. exact Hall.
Qed.

(* ------------------------------------------------------------------ *)
(* the filled chart is closed under predict / scan / complete          *)
(* ------------------------------------------------------------------ *)
Section Closure.
  Variable cg : grammar.
  Variable w : str.
  Variable eps : list str.

  (* the consequences of item st of column i (columns 0..i-1 = prev) are present.  For a finished
     item whose origin is the column itself nothing is claimed here (the code completes it against
     a snapshot of the growing column; the predict-advance over nullable symbols covers it) *)
  Definition closed_item (prev : list column) (i : nat) (nl : option chr) (cur nxt : column) (st : item) : Prop :=
    match at_dot st with
    | None => iorg st <> i -> forall p, In p (nth (iorg st) prev []) -> wants (iname st) p = true ->
              In (advance p) cur
    | Some sym =>
        if defined cg sym then
          (forall a, In a (alts cg sym) -> In (Item sym a 0 i) cur) /\
          (mem sym eps = true -> In (advance st) cur)
        else forall c, nl = Some c -> sym = [c] -> In (advance st) nxt
    end.

  Lemma closed_item_mono prev i nl cur nxt cur' nxt' st :
    closed_item prev i nl cur nxt st -> incl cur cur' -> incl nxt nxt' -> closed_item prev i nl cur' nxt' st.
  Proof.
    unfold closed_item. intros H Hc Hn. destruct (at_dot st) as [sym|].
    - destruct (defined cg sym).
      + destruct H as [H1 H2]. split; [intros a Ha; apply Hc, H1, Ha | intro Hm; apply Hc, H2, Hm].
      + intros c Hnl Hs. apply Hn. apply (H c Hnl Hs).
    - intros Ho p Hp Hw. apply Hc. apply (H Ho p Hp Hw).
  Qed.

  Lemma closed_item_last prev i cur nxt nxt' st :
    closed_item prev i None cur nxt st -> closed_item prev i None cur nxt' st.
  Proof.
    unfold closed_item. intros H. destruct (at_dot st) as [sym|]; [|exact H].
    destruct (defined cg sym); [exact H|]. intros c Hc. discriminate.
  Qed.

  Lemma process_closes prev i nl st cur nxt cur' nxt' :
    process cg eps prev i nl st cur nxt = (cur', nxt') ->
    closed_item prev i nl cur' nxt' st /\ (exists ex, cur' = cur ++ ex) /\ incl nxt nxt'.
  Proof.
    unfold process, closed_item. intro H. destruct (at_dot st) as [sym|] eqn:Hdot.
    - destruct (defined cg sym) eqn:Hdef.
      + destruct (add_all_ext (map (fun a => Item sym a 0 i) (alts cg sym)) cur) as (e1 & E1).
        assert (H1 : forall a, In a (alts cg sym) ->
                     In (Item sym a 0 i) (add_all cur (map (fun a => Item sym a 0 i) (alts cg sym)))).
        { intros a Ha. apply add_all_In. right. apply in_map_iff. exists a. split; [reflexivity|exact Ha]. }
        destruct (mem sym eps) eqn:Hm; inversion H; subst cur' nxt'.
        * split; [split|split].
          -- intros a Ha. apply add_In. left. apply H1, Ha.
          -- intros _. apply add_In. right. reflexivity.
          -- destruct (add_ext (add_all cur (map (fun a => Item sym a 0 i) (alts cg sym))) (advance st)) as (e2 & E2).
             exists (e1 ++ e2). rewrite E2, E1, app_assoc. reflexivity.
          -- apply incl_refl.
        * split; [split|split].
          -- exact H1.
          -- discriminate.
          -- exists e1. exact E1.
          -- apply incl_refl.
      + destruct nl as [c|].
        * destruct (str_eqb sym [c]) eqn:E; inversion H; subst cur' nxt'.
          -- split; [|split].
             ++ intros c0 Hc0 Hs. apply add_In. right. reflexivity.
             ++ exists []. rewrite app_nil_r. reflexivity.
             ++ intros x Hx. apply add_In. left. exact Hx.
          -- split; [|split].
             ++ intros c0 Hc0 Hs. inversion Hc0; subst c0. subst sym. rewrite str_eqb_refl in E. discriminate.
             ++ exists []. rewrite app_nil_r. reflexivity.
             ++ apply incl_refl.
        * inversion H; subst cur' nxt'. split; [|split].
          -- intros c Hc. discriminate.
          -- exists []. rewrite app_nil_r. reflexivity.
          -- apply incl_refl.
    - inversion H; subst cur' nxt'. split; [|split].
      + intros Ho p Hp Hw. apply add_all_In. right. apply in_map_iff. exists p. split; [reflexivity|].
        apply filter_In. split; [|exact Hw]. apply Nat.eqb_neq in Ho. rewrite Ho. exact Hp.
      + apply add_all_ext.
      + apply incl_refl.
  Qed.

  (* loop invariant of `for state in col.states`: positions < k are processed *)
  Lemma fill_col_closed prev i nl : forall fuel k cur nxt cur' nxt',
    (forall m st, m < k -> nth_error cur m = Some st -> closed_item prev i nl cur nxt st) ->
    fill_col fuel cg eps prev i nl k cur nxt = Some (cur', nxt') ->
    (forall st, In st cur' -> closed_item prev i nl cur' nxt' st) /\ incl cur cur' /\ incl nxt nxt'.
  Proof.
    induction fuel as [|f IH]; intros k cur nxt cur' nxt' Hdone H; simpl in H; [discriminate|].
    destruct (nth_error cur k) as [st|] eqn:Hk.
    - destruct (process cg eps prev i nl st cur nxt) as [c1 n1] eqn:Hp.
      destruct (process_closes _ _ _ _ _ _ _ _ Hp) as (Hcl & (ex & Eex) & Hn).
      assert (Hc : incl cur c1) by (rewrite Eex; apply incl_appl, incl_refl).
      destruct (IH (S k) c1 n1 cur' nxt') as (H1 & H2 & H3); [|exact H|].
      + intros m st' Hm Hst'.
        assert (Hlt : k < length cur) by (apply nth_error_Some; congruence).
        destruct (Nat.eq_dec m k) as [->|Hne].
        * rewrite Eex, nth_error_app1 in Hst' by exact Hlt. rewrite Hk in Hst'.
          inversion Hst'; subst st'. exact Hcl.
        * rewrite Eex, nth_error_app1 in Hst' by lia.
          apply (closed_item_mono prev i nl cur nxt);
            [apply (Hdone m); [lia|exact Hst'] | exact Hc | exact Hn].
      + split; [exact H1|]. split; eapply incl_tran; eauto.
    - inversion H; subst cur' nxt'. split; [|split; apply incl_refl].
      intros st Hst. apply In_nth_error in Hst as (m & Hm). apply (Hdone m); [|exact Hm].
      apply nth_error_None in Hk. assert (m < length cur) by (apply nth_error_Some; congruence). lia.
  Qed.

  Lemma firstn_length_app {A} (l r : list A) : firstn (length l) (l ++ r) = l.
  Proof. induction l as [|x l IH]; simpl; [destruct r; reflexivity | f_equal; exact IH]. Qed.

  Lemma nth0_hd {A} (l : list A) d : nth 0 l d = hd d l.
  Proof. destruct l; reflexivity. Qed.

  Lemma fill_chart_closed fuel : forall rest prev i cur chart,
    length prev = i -> skipn i w = rest ->
    fill_chart fuel cg eps prev i cur rest = Some chart ->
    exists cols, chart = prev ++ cols /\ incl cur (hd [] cols) /\ length cols = S (length rest) /\
      forall d col st, nth_error cols d = Some col -> In st col ->
        closed_item (firstn (i + d) chart) (i + d) (nth_error w (i + d)) col (nth (S d) cols []) st.
  Proof.
    induction rest as [|c rest IH]; intros prev i cur chart Hlen Hsk H; simpl in H.
    - destruct (fill_col fuel cg eps prev i None 0 cur []) as [[c1 n1]|] eqn:Hf; [|discriminate].
      inversion H; subst chart; clear H.
      destruct (fill_col_closed prev i None fuel 0 cur [] c1 n1) as (H1 & H2 & _); [intros m st Hm; lia | exact Hf|].
      exists [c1]. split; [reflexivity|]. split; [exact H2|]. split; [reflexivity|].
      intros d col st Hd Hst. destruct d as [|d]; [|destruct d; discriminate].
      simpl in Hd. inversion Hd; subst col. rewrite Nat.add_0_r. rewrite <- Hlen at 1. rewrite firstn_length_app.
      assert (Hn : nth_error w i = None).
      { apply nth_error_None. assert (Hz : length (skipn i w) = 0) by (rewrite Hsk; reflexivity).
        rewrite skipn_length in Hz. lia. }
      rewrite Hn. apply (closed_item_last prev i c1 n1). apply H1. exact Hst.
    - destruct (fill_col fuel cg eps prev i (Some c) 0 cur []) as [[c1 n1]|] eqn:Hf; [|discriminate].
      destruct (skipn_cons_nth w i c rest Hsk) as [Hn Hsk'].
      destruct (fill_col_closed prev i (Some c) fuel 0 cur [] c1 n1) as (H1 & H2 & _); [intros m st Hm; lia | exact Hf|].
      destruct (IH (prev ++ [c1]) (S i) n1 chart) as (cols & Ech & Hinc & Hl & Hcl);
        [rewrite app_length; simpl; lia | exact Hsk' | exact H |].
      exists (c1 :: cols). split; [rewrite Ech, <- app_assoc; reflexivity|]. split; [exact H2|].
      split; [simpl; rewrite Hl; reflexivity|].
      intros d col st Hd Hst. destruct d as [|d].
      + simpl in Hd. inversion Hd; subst col. rewrite Nat.add_0_r.
        assert (Ef : firstn i chart = prev).
        { rewrite Ech, <- app_assoc, <- Hlen. apply firstn_length_app. }
        rewrite Ef, Hn. apply (closed_item_mono prev i (Some c) c1 n1); [apply H1; exact Hst | apply incl_refl|].
        change (nth 1 (c1 :: cols) []) with (nth 0 cols []). rewrite nth0_hd. exact Hinc.
      + simpl in Hd. replace (i + S d) with (S i + d) by lia.
        change (nth (S (S d)) (c1 :: cols) []) with (nth (S d) cols []).
        apply Hcl; assumption.
  Qed.

  Definition chart_closed (chart : list column) : Prop :=
    forall i col st, nth_error chart i = Some col -> In st col ->
      closed_item (firstn i chart) i (nth_error w i) col (nth (S i) chart []) st.

  Theorem fill_chart_chart_closed fuel sd chart :
    fill_chart fuel cg eps [] 0 (add_all [] sd) w = Some chart ->
    chart_closed chart /\ length chart = S (length w) /\ incl sd (nth 0 chart []).
  Proof.
    intro H. destruct (fill_chart_closed fuel w [] 0 (add_all [] sd) chart eq_refl eq_refl H)
      as (cols & E & Hinc & Hl & Hcl).
    simpl in E. subst cols. split; [|split].
    - intros i col st Hi Hst. apply (Hcl i col st Hi Hst).
    - exact Hl.
    - rewrite nth0_hd. intros x Hx. apply Hinc. apply add_all_In. right. exact Hx.
  Qed.
End Closure.

(* ------------------------------------------------------------------ *)
(* substrings, once more                                               *)
(* ------------------------------------------------------------------ *)
Lemma sub_length w i j : j <= length w -> length (sub w i j) = j - i.
Proof. intro H. unfold sub. rewrite firstn_length, skipn_length. lia. Qed.

Lemma sub_cons_inv w i j c u :
  c :: u = sub w i j -> nth_error w i = Some c /\ i < j /\ u = sub w (S i) j.
Proof.
  unfold sub. intro H. destruct (j - i) as [|m] eqn:Em; [discriminate|].
  destruct (skipn i w) as [|x r] eqn:Es; [discriminate|]. simpl in H. inversion H; subst x u.
  destruct (skipn_cons_nth w i c r Es) as [Hn Hr]. split; [exact Hn|]. split; [lia|].
  rewrite Hr. f_equal. lia.
Qed.

Lemma app_eq_length {A} (u u' v v' : list A) :
  u ++ v = u' ++ v' -> length u = length u' -> u = u' /\ v = v'.
Proof.
  revert u'. induction u as [|x u IH]; intros [|y u'] H Hl; simpl in *; try discriminate.
  - split; [reflexivity | exact H].
  - inversion H; subst y. destruct (IH u' H2) as [-> ->]; [lia|]. split; reflexivity.
Qed.

Lemma sub_app_inv w i j u v : i <= j -> j <= length w -> u ++ v = sub w i j ->
  i + length u <= j /\ u = sub w i (i + length u) /\ v = sub w (i + length u) j.
Proof.
  intros Hij Hj H.
  assert (Hl : length u + length v = j - i) by (rewrite <- app_length, H; apply sub_length; exact Hj).
  assert (Hk : i + length u <= j) by lia. split; [exact Hk|].
  rewrite <- (sub_app w i (i + length u) j) in H by lia.
  apply app_eq_length in H; [exact H|]. rewrite sub_length by lia. lia.
Qed.

Lemma alts_defined (cg : grammar) A al : In al (alts cg A) -> defined cg A = true.
Proof.
  unfold defined. induction cg as [|[B bl] cg IH]; simpl; [contradiction|].
  destruct (str_eqb A B); [intros _; reflexivity | exact IH].
Qed.

Lemma nth_firstn_lt {A} (l : list A) d : forall i k, i < k -> nth i (firstn k l) d = nth i l d.
Proof.
  induction l as [|x l IH]; intros i k H.
  - rewrite firstn_nil. reflexivity.
  - destruct k as [|k]; [lia|]. destruct i as [|i]; simpl; [reflexivity | apply IH; lia].
Qed.

Lemma In_nth_nth_error {A} (l : list (list A)) i x : In x (nth i l []) -> nth_error l i = Some (nth i l []).
Proof.
  intro H. destruct (nth_error l i) as [c|] eqn:E.
  - rewrite (nth_error_nth _ _ _ E). reflexivity.
  - apply nth_error_None in E. rewrite nth_overflow in H by exact E. destruct H.
Qed.

Lemma derives_single_inv (cg : grammar) A x : is_nt A = true -> derives cg [A] x ->
  exists al, In al (alts cg A) /\ derives cg al x.
Proof.
  intros Hnt Hder.
  inversion Hder as [|t rest u Ht Hd E1 E2|A' al rest u v HA Hal Hd1 Hd2 E1 E2]; subst; [congruence|].
  apply derives_nil_inv in Hd2. subst v. rewrite app_nil_r. exists al. split; assumption.
Qed.

(* ------------------------------------------------------------------ *)
(* derivable => item in the chart                                      *)
(* ------------------------------------------------------------------ *)
Section Complete.
  Variable cg : grammar.
  Variable w : str.
  Variable eps : list str.
  Variable chart : list column.
  Hypothesis Hkeys : forall A, defined cg A = true -> is_nt A = true.
  Hypothesis Hsyms : forall A al s, In al (alts cg A) -> In s al -> defined cg s = true \/ exists c, s = [c].
  Hypothesis Hnull : forall A, derives cg [A] [] -> mem A eps = true.
  Hypothesis Hclosed : chart_closed cg w eps chart.
  Notation col i := (nth i chart []).

  Definition sym_ok (s : str) : Prop := defined cg s = true \/ exists c, s = [c].

  Lemma closed_predict i it sym : In it (col i) -> at_dot it = Some sym -> defined cg sym = true ->
    (forall a, In a (alts cg sym) -> In (Item sym a 0 i) (col i)) /\ (mem sym eps = true -> In (advance it) (col i)).
  Proof.
    intros Hin Hdot Hdef. pose proof (Hclosed i (col i) it (In_nth_nth_error chart i it Hin) Hin) as H.
    unfold closed_item in H. rewrite Hdot, Hdef in H. exact H.
  Qed.

  Lemma closed_scan i it c : In it (col i) -> at_dot it = Some [c] -> defined cg [c] = false ->
    nth_error w i = Some c -> In (advance it) (col (S i)).
  Proof.
    intros Hin Hdot Hdef Hn. pose proof (Hclosed i (col i) it (In_nth_nth_error chart i it Hin) Hin) as H.
    unfold closed_item in H. rewrite Hdot, Hdef in H. apply (H c Hn eq_refl).
  Qed.

  Lemma closed_complete i k st p : i < k -> In st (col k) -> at_dot st = None -> iorg st = i ->
    In p (col i) -> wants (iname st) p = true -> In (advance p) (col k).
  Proof.
    intros Hik Hin Hdot Ho Hp Hw. pose proof (Hclosed k (col k) st (In_nth_nth_error chart k st Hin) Hin) as H.
    unfold closed_item in H. rewrite Hdot in H. apply H; [lia | | exact Hw].
    rewrite Ho, nth_firstn_lt by exact Hik. exact Hp.
  Qed.

  (* item (nm -> alpha . beta gamma, s) in column i and beta =>* w[i..j)
     ==> item (nm -> alpha beta . gamma, s) in column j *)
  Lemma chart_complete_gen : forall beta u, derives cg beta u ->
    forall nm e d s i j, Forall sym_ok beta -> In (Item nm e d s) (col i) -> skipn d e = beta ->
      i <= j -> j <= length w -> u = sub w i j ->
      In (Item nm e (d + length beta) s) (col j).
  Proof.
    induction 1 as [|t rest u Ht Hd IH|A al rest u v HA Hal Hd1 IH1 Hd2 IH2];
      intros nm e d s i j Hok Hin Hsk Hij Hj Hu.
    - assert (E : length (sub w i j) = 0) by (rewrite <- Hu; reflexivity).
      rewrite sub_length in E by exact Hj. replace j with i by lia. simpl. rewrite Nat.add_0_r. exact Hin.
    - inversion Hok as [|t' rest' Hst Hrest]; subst t' rest'.
      destruct Hst as [Hdef|[c ->]]; [apply Hkeys in Hdef; congruence|].
      simpl in Hu. destruct (sub_cons_inv w i j c u Hu) as (Hn & Hlt & Hu').
      destruct (skipn_cons_nth e d [c] rest Hsk) as [Hdot Hsk'].
      assert (Hnd : defined cg [c] = false).
      { destruct (defined cg [c]) eqn:Edef; [|reflexivity]. apply Hkeys in Edef. congruence. }
      pose proof (closed_scan i (Item nm e d s) c Hin Hdot Hnd Hn) as Hadv.
      cbn [length]. rewrite Nat.add_succ_r. change (S (d + length rest)) with (S d + length rest).
      apply (IH nm e (S d) s (S i) j Hrest Hadv Hsk'); [lia | exact Hj | exact Hu'].
    - inversion Hok as [|t' rest' Hst Hrest]; subst t' rest'.
      destruct (sub_app_inv w i j u v Hij Hj Hu) as (Hk & Hu1 & Hv).
      destruct (skipn_cons_nth e d A rest Hsk) as [Hdot Hsk'].
      assert (Hdef : defined cg A = true) by (eapply alts_defined; exact Hal).
      destruct (closed_predict i (Item nm e d s) A Hin Hdot Hdef) as [Hp1 Hp2].
      assert (Hfin : In (Item A al (0 + length al) i) (col (i + length u))).
      { apply (IH1 A al 0 i i (i + length u)); [|apply Hp1; exact Hal|reflexivity|lia|lia|exact Hu1].
        apply Forall_forall. intros x Hx. apply (Hsyms A al x Hal Hx). }
      simpl in Hfin.
      assert (Hadv : In (Item nm e (S d) s) (col (i + length u))).
      { destruct u as [|c0 u0].
        - simpl. rewrite Nat.add_0_r. apply Hp2. apply Hnull.
          change (derives cg [A] ([] ++ [])). eapply d_nt; [exact HA | exact Hal | exact Hd1 | constructor].
        - apply (closed_complete i (i + length (c0 :: u0)) (Item A al (length al) i) (Item nm e d s));
            [simpl; lia | exact Hfin | | reflexivity | exact Hin |].
          + unfold at_dot. simpl. apply nth_error_None. lia.
          + unfold wants, at_dot. cbn [iname iexpr idot iorg]. rewrite Hdot. apply str_eqb_refl. }
      cbn [length]. rewrite Nat.add_succ_r. change (S (d + length rest)) with (S d + length rest).
      apply (IH2 nm e (S d) s (i + length u) j Hrest Hadv Hsk'); [exact Hk | exact Hj | exact Hv].
  Qed.

  (* a member of the language of `start` is accepted *)
  Theorem accept_complete_gen start fxB sd :
    (forall al, In al (alts cg start) -> In (Item start al 0 0) sd) ->
    incl sd (col 0) -> length chart = S (length w) -> is_nt start = true ->
    derives cg [start] w -> existsb (accepting fxB start) (last chart []) = true.
  Proof.
    intros Hsd Hinc Hl Hnt Hder.
    destruct (derives_single_inv cg start w Hnt Hder) as (al & Hal & Hd1).
    assert (Hfin : In (Item start al (0 + length al) 0) (col (length w))).
    { apply (chart_complete_gen al w Hd1 start al 0 0 0 (length w)); try lia; try reflexivity.
      - apply Forall_forall. intros x Hx. apply (Hsyms start al x Hal Hx).
      - apply Hinc, Hsd, Hal.
      - symmetry. apply sub_full. }
    simpl in Hfin. rewrite (nth_error_nth _ _ _ (last_nth w chart Hl)) in Hfin.
    apply existsb_exists. exists (Item start al (length al) 0). split; [exact Hfin|].
    unfold accepting, finished. simpl. rewrite str_eqb_refl, Nat.leb_refl, orb_true_r. reflexivity.
  Qed.
End Complete.

(* ------------------------------------------------------------------ *)
(* from g to the parser's single-character grammar and back            *)
(* ------------------------------------------------------------------ *)
Lemma alts_set_key_same g K al : alts (set_key g K al) K = al.
Proof.
  induction g as [|[B bl] g IH]; simpl.
  - rewrite str_eqb_refl. reflexivity.
  - destruct (str_eqb K B) eqn:E; simpl; rewrite E; [reflexivity | exact IH].
Qed.

Lemma derives_chars (cg : grammar) cs : forall X u,
  derives cg X u -> derives cg (map single cs ++ X) (cs ++ u).
Proof.
  induction cs as [|c cs IH]; intros X u H; simpl; [exact H|].
  change (c :: cs ++ u) with ([c] ++ (cs ++ u)). constructor; [apply is_nt_single | apply IH; exact H].
Qed.

Section CgramComplete.
  Variable g : grammar.
  Variable cstart : str.
  Hypothesis Hk : forall A, defined g A = true -> is_nt A = true.
  Hypothesis Hw : defined g WRAP = false.
  Let cg := cgram g cstart.

  Lemma cgc_defined_of A : defined g A = true -> defined cg A = true.
  Proof.
    intro H. unfold cg, cgram, sct. destruct (Nat.eqb (length (alts g cstart)) 1).
    - rewrite defined_map. exact H.
    - rewrite defined_set_key, defined_map, H. reflexivity.
  Qed.

  Lemma cgc_alts A : defined g A = true -> alts cg A = map (sct_alt g) (alts g A).
  Proof.
    intro HA. unfold cg, cgram, sct.
    destruct (Nat.eqb (length (alts g cstart)) 1); [apply alts_map|].
    rewrite alts_set_key; [apply alts_map|].
    apply str_eqb_neq. intro E. subst A. congruence.
  Qed.

  Lemma cgc_keys A : defined cg A = true -> is_nt A = true.
  Proof.
    unfold cg, cgram, sct. destruct (Nat.eqb (length (alts g cstart)) 1).
    - rewrite defined_map. apply Hk.
    - rewrite defined_set_key, defined_map. intro H. apply orb_true_iff in H as [H|H]; [apply Hk; exact H|].
      apply str_eqb_eq in H. subst A. reflexivity.
  Qed.

  (* every right-hand side of the parser's grammar consists of defined symbols and single characters *)
  Lemma cgc_syms : defined g cstart = true ->
    forall A al s, In al (alts cg A) -> In s al -> defined cg s = true \/ exists c, s = [c].
  Proof.
    intros Hcs A al s Hal Hs.
    assert (Hsct : forall al0, In s (sct_alt g al0) -> defined cg s = true \/ exists c, s = [c]).
    { intros al0 H. unfold sct_alt in H. apply in_flat_map in H as (tok & _ & H). unfold sct_tok in H.
      destruct (defined g tok) eqn:Ed.
      - destruct H as [<-|[]]. left. apply cgc_defined_of. exact Ed.
      - apply in_map_iff in H as (c & <- & _). right. exists c. reflexivity. }
    unfold cg, cgram in Hal. destruct (Nat.eqb (length (alts g cstart)) 1).
    - unfold sct in Hal. rewrite alts_map in Hal. apply in_map_iff in Hal as (al0 & <- & _). apply (Hsct al0). exact Hs.
    - destruct (str_eqb A WRAP) eqn:E.
      + apply str_eqb_eq in E. subst A. rewrite alts_set_key_same in Hal. destruct Hal as [<-|[]].
        destruct Hs as [<-|[]]. left. apply cgc_defined_of. exact Hcs.
      + rewrite alts_set_key in Hal by exact E. unfold sct in Hal. rewrite alts_map in Hal.
        apply in_map_iff in Hal as (al0 & <- & _). apply (Hsct al0). exact Hs.
  Qed.

  (* a derivation in g is a derivation in the parser's grammar (converse of EarleyTop.transfer) *)
  Lemma transfer_rev syms u : derives g syms u -> derives cg (sct_alt g syms) u.
  Proof.
    induction 1 as [|t rest u Ht Hd IH|A al rest u v HA Hal Hd1 IH1 Hd2 IH2].
    - constructor.
    - rewrite sct_alt_cons. unfold sct_tok.
      assert (Hnd : defined g t = false).
      { destruct (defined g t) eqn:E; [|reflexivity]. apply Hk in E. congruence. }
      rewrite Hnd. apply derives_chars. exact IH.
    - rewrite sct_alt_cons. unfold sct_tok.
      assert (Hdef : defined g A = true) by (eapply alts_defined; exact Hal).
      rewrite Hdef. simpl. eapply d_nt; [exact HA | | exact IH1 | exact IH2].
      rewrite (cgc_alts A Hdef). apply in_map. exact Hal.
  Qed.

  Corollary transfer_rev_L A u : defined g A = true -> L g A u -> derives cg [A] u.
  Proof.
    intros HA H. apply transfer_rev in H. simpl in H. unfold sct_tok in H. rewrite HA in H. exact H.
  Qed.

  Lemma seeds_cover fxA start sd al :
    seeds fxA cg start = Ok sd -> In al (alts cg start) -> In (Item start al 0 0) sd.
  Proof.
    unfold seeds. intros H Hal. destruct (negb (defined cg start)); [discriminate|].
    destruct fxA.
    - inversion H; subst sd. apply in_map_iff. exists al. split; [reflexivity | exact Hal].
    - destruct (alts cg start) as [|a [|b l]]; [destruct Hal | | discriminate].
      inversion H; subst sd. destruct Hal as [<-|[]]. left; reflexivity.
  Qed.

  (* COMPLETENESS of the recogniser: whenever a chart is delivered (i.e. the fuel sufficed and the
     seeding did not raise), a member of L g start is accepted -- pinned and repaired form alike *)
  Theorem accept_complete fxA fxB fuel start w chart :
    defined g start = true -> defined g cstart = true ->
    L g start w -> chart_of fxA fuel cg start w = Ok chart ->
    existsb (accepting fxB start) (last chart []) = true.
  Proof.
    intros Hds Hcs HL H. unfold chart_of in H.
    destruct (seeds fxA cg start) as [sd|e] eqn:Hs; [|discriminate].
    destruct (fill_chart fuel cg (nullable cg) [] 0 (add_all [] sd) w) as [ch|] eqn:Hf; [|discriminate].
    inversion H; subst ch.
    destruct (fill_chart_chart_closed cg w (nullable cg) fuel sd chart Hf) as (Hcl & Hl & Hinc).
    apply (accept_complete_gen cg w (nullable cg) chart cgc_keys (cgc_syms Hcs)
             (nullable_complete cg) Hcl start fxB sd).
    - intros al Hal. eapply seeds_cover; eauto.
    - exact Hinc.
    - exact Hl.
    - apply Hk. exact Hds.
    - apply transfer_rev_L; assumption.
  Qed.
End CgramComplete.

(* ---------------- statements exported in Props/C10.v ---------------- *)
Theorem accepts_complete : forall g cstart fxA fxB fuel start w b,
  good_grammar g -> defined g WRAP = false -> defined g start = true -> defined g cstart = true ->
  L g start w -> earley_accepts fxA fxB fuel g cstart start w = Ok b -> b = true.
Proof.
  intros g cstart fxA fxB fuel start w b (Hk & _) Hw Hds Hcs HL H. unfold earley_accepts in H.
  destruct (chart_of fxA fuel (cgram g cstart) start w) as [chart|e] eqn:Hc; [|discriminate].
  inversion H. apply (accept_complete g cstart Hk Hw fxA fxB fuel start w chart); assumption.
Qed.

Theorem reject_sound : forall g cstart fxA fxB fuel start w k,
  good_grammar g -> defined g start = true -> defined g cstart = true ->
  earley_parse fxA fxB fuel g cstart start w k = Raise SyntaxErr -> ~ L g start w.
Proof.
  intros g cstart fxA fxB fuel start w k (Hk & _) Hds Hcs H HL. unfold earley_parse in H.
  destruct (defined g WRAP) eqn:Hw; [discriminate|].
  destruct (chart_of fxA fuel (cgram g cstart) start w) as [chart|e] eqn:Hc.
  - pose proof (accept_complete g cstart Hk Hw fxA fxB fuel start w chart Hds Hcs HL Hc) as Hex.
    apply existsb_exists in Hex as (st & Hin & Hacc).
    destruct (find (accepting fxB start) (last chart [])) as [st'|] eqn:Hfind.
    + destruct (trees fuel (cgram g cstart) chart w st' (length w)); discriminate.
    + apply (find_none _ _ Hfind) in Hin. congruence.
  - unfold chart_of in Hc. destruct (seeds fxA (cgram g cstart) start) as [sd|e'] eqn:Hs.
    + destruct (fill_chart fuel (cgram g cstart) (nullable (cgram g cstart)) [] 0 (add_all [] sd) w);
        [discriminate|]. inversion Hc; subst e. discriminate.
    + inversion Hc; subst e'. unfold seeds in Hs.
      destruct (negb (defined (cgram g cstart) start)); [inversion Hs; subst e; discriminate|].
      destruct fxA; [discriminate|].
      destruct (alts (cgram g cstart) start) as [|a [|b l]]; try discriminate.
      inversion Hs; subst e. discriminate.
Qed.
