(* C13 — proof extension (third pass): totality of insert_tree for EVERY method mask.

   1. `oka r`: the outcome r is a value or an AssertionError (no IndexErr / StopIter / ...).
      Shown for connect_trees, insert_trees, compute_self_embeddings, compute_context_additions,
      add_to_result.  The core is the n-item invariant of insert_trees (`pending`): while the
      items of one combination are processed (LIFO list of partial results), every leaf chosen
      for a LATER item is still the untouched original leaf of `into` in EVERY partial result,
      because an insertion point used for an earlier item (its leaf path or a higher-up point
      reached through single-child nodes) is never nested with it (combination_ok: the leaf
      paths are pairwise non-nested).  Hence get_subtree(insertion_path) cannot fail, and the
      `next(...)` over nonterminal single-parent children is never taken for a terminal leaf
      (its leaf has the same label, so the direct replacement branch is used).
   2. assertion-freedom (`na`) of compute_context_additions, hence of insert_tree for every mask.
   3. oka + na = the call returns a list. *)
From ISLA Require Import Grammar GrammarFacts PathFacts TreeFacts Insert InsertFacts
     InsertDirectMore InsertTrackMore InsertSelfMore InsertCtxMore InsertSelfAssertMore.
From Coq Require Import List NArith Bool Arith Lia.
Import ListNotations.

(* ---------- outcome predicate: Ok, AssertErr, or (non-strict only) IndexErr ---------- *)
Definition okx (strict : bool) {A} (r : res A) : Prop :=
  match r with
  | Ok _ => True
  | Raise e => e = AssertErr \/ (strict = false /\ e = IndexErr)
  end.

Definition oka {A} (r : res A) : Prop := okx true r.

Lemma okx_ok strict {A} (x : A) : okx strict (Ok x).
Proof. exact I. Qed.

Lemma okx_bind strict {A B} (r : res A) (f : A -> res B) :
  okx strict r -> (forall x, r = Ok x -> okx strict (f x)) -> okx strict (bind r f).
Proof. destruct r as [x|e]; simpl; intros H Hf; [apply Hf; reflexivity | exact H]. Qed.

Lemma okx_mapM strict {A B} (f : A -> res B) l :
  (forall x, In x l -> okx strict (f x)) -> okx strict (mapM f l).
Proof.
  induction l as [|x l IH]; intro H; simpl; [exact I|].
  apply okx_bind; [apply H; left; reflexivity|]. intros y _.
  apply okx_bind; [apply IH; intros z Hz; apply H; right; assumption|]. intros ys _. exact I.
Qed.

Lemma okx_concatM strict {A B} (f : A -> res (list B)) l :
  (forall x, In x l -> okx strict (f x)) -> okx strict (concatM f l).
Proof. intro H. unfold concatM. apply okx_bind; [apply okx_mapM; assumption|]. intros; exact I. Qed.

Lemma okx_assert strict b : okx strict (assert b).
Proof. destruct b; simpl; auto. Qed.

Lemma okx_weaken {A} (r : res A) strict : okx true r -> okx strict r.
Proof. destruct r as [x|e]; simpl; [auto|]. intros [H|[H _]]; [left; assumption | discriminate]. Qed.

Lemma good_okx strict {A} (r : res A) : good strict r -> okx strict r.
Proof. destruct r as [x|e]; simpl; [auto|]. intro H. right. exact H. Qed.

Lemma okx_true_na_ok {A} (r : res A) : okx true r -> na r -> exists x, r = Ok x.
Proof.
  destruct r as [x|e]; simpl; intros H Hna; [eauto|]. exfalso.
  destruct H as [->|[H _]]; [apply Hna; reflexivity | discriminate].
Qed.

Lemma okx_false_na_cases {A} (r : res A) :
  okx false r -> na r -> (exists x, r = Ok x) \/ r = Raise IndexErr.
Proof.
  destruct r as [x|e]; simpl; intros H Hna; [eauto|].
  destruct H as [->|[_ ->]]; [exfalso; apply Hna; reflexivity | right; reflexivity].
Qed.

(* ---------- replace_path on an existing position ---------- *)
Lemma replace_path_some t p r s : subtree t p = Some s -> exists t', replace_path t p r = Ok t'.
Proof.
  intro H. destruct (replace_at_some p t r s H) as (t' & Ht'). exists t'. unfold replace_path.
  rewrite Ht'. reflexivity.
Qed.

(* ---------- connect_trees ---------- *)
Lemma connect_one_oka g add parent ip n ct lp :
  subtree parent ip = Some n -> In lp (open_leaves_lbl ct (lbl add)) ->
  oka (connect_one g add parent ip ct lp).
Proof.
  intros Hn Hlp. unfold connect_one, oka. rewrite Hn.
  destruct (open_leaves_lbl_spec _ _ _ Hlp) as (leaf & Hleaf & _ & _).
  destruct (reroot_subtree ct (tid n) lp leaf Hleaf) as (leaf' & Hleaf' & _).
  destruct (replace_path_some _ lp add leaf' Hleaf') as (inst & ->). simpl.
  destruct (replace_path_some parent ip inst n Hn) as (new & ->). simpl.
  apply okx_bind; [apply okx_assert|]. intros; exact I.
Qed.

Lemma path_to_tree_oka g ch : oka (path_to_tree g ch).
Proof. destruct ch as [|A [|B rest]]; simpl; auto. Qed.

Lemma connect_trees_oka g pb add parent ipts :
  (forall ip n, In (ip, n) ipts -> subtree parent ip = Some n) ->
  oka (connect_trees g pb add parent ipts).
Proof.
  intros Hipts. unfold connect_trees. apply okx_concatM. intros [ip n] Hin. simpl.
  destruct (is_nt (lbl n)); [|exact I].
  apply okx_concatM. intros ch _. apply okx_bind; [apply path_to_tree_oka|]. intros cts _.
  apply okx_concatM. intros ct _. apply okx_mapM. intros lp Hlp.
  eapply connect_one_oka; eauto.
Qed.

(* ---------- insert_item ---------- *)
(* what is needed of the node at the insertion path: it exists, and either carries the label of
   the tree (direct replacement) or the tree's root is a nonterminal (so `next(...)` finds it) *)
Definition fits (rt : tree) (t : tree) (p : path) : Prop :=
  exists n, subtree rt p = Some n /\ kids n = [] /\ (lbl n = lbl t \/ is_nt (lbl t) = true).

Lemma insert_item_oka g pb reach t ip rt :
  fits rt t ip -> oka (insert_item g pb reach t ip rt).
Proof.
  intros (n & Hn & _ & Hl). unfold insert_item. rewrite Hn.
  destruct (str_eqb (lbl n) (lbl t)) eqn:El.
  - destruct (replace_path_some rt ip t n Hn) as (new & ->). simpl.
    apply okx_bind; [apply okx_assert|]. intros _ _.
    apply okx_bind; [apply okx_assert|]. intros; exact I.
  - destruct Hl as [Hl|Hnt]; [rewrite Hl, str_eqb_refl in El; discriminate|].
    unfold cwamop_t. destruct (cwamop_head (size t) t) as (r & ->). simpl. rewrite Hnt.
    apply connect_trees_oka. intros ip' n' [E|Hhu].
    + inversion E; subst. assumption.
    + apply (higher_up_spec _ _ _ _ _ _ Hhu).
Qed.

(* ---------- the n-item invariant ---------- *)
Definition apart (p q : path) : Prop := ~ prefix p q /\ ~ prefix q p.

(* one step: a leaf that is apart from the insertion path of the processed item is untouched *)
Lemma insert_item_keeps_apart g pb reach t ip rt news new q n :
  simple_root t ->
  insert_item g pb reach t ip rt = Ok news -> In new news ->
  apart ip q -> subtree rt q = Some n ->
  subtree new q = Some n.
Proof.
  intros Hsr H Hin [Hn1 Hn2] Hq.
  destruct (insert_item_place _ _ _ _ _ _ _ _ Hsr H Hin)
    as (ip' & m & x & Hip & (ipt & Hipt) & _ & _ & Hout).
  rewrite Hout; [assumption| |].
  - intro Hp. destruct (ipoint_comparable _ _ _ _ _ _ _ Hip Hipt Hq Hp); contradiction.
  - intro Hp. apply Hn2. eapply prefix_trans; [exact Hp|]. apply Hip.
Qed.

Fixpoint nonnest (ps : list path) : Prop :=
  match ps with
  | [] => True
  | p :: r => Forall (apart p) r /\ nonnest r
  end.

(* every item still to be processed fits every partial result *)
Definition pending (items : list (tree * path)) (rts : list tree) : Prop :=
  forall rt tp, In rt rts -> In tp items -> fits rt (fst tp) (snd tp).

Lemma insert_items_oka g pb reach : forall items rts,
  Forall (fun tp => simple_root (fst tp)) items ->
  nonnest (map snd items) -> pending items rts ->
  oka (insert_items g pb reach items rts).
Proof.
  induction items as [|[t ip] items IH]; intros rts Hsr Hnn Hpend; simpl; [exact I|].
  inversion Hsr as [|? ? Ht Hsr']; subst. simpl in Ht. simpl in Hnn. destruct Hnn as [Hap Hnn].
  apply okx_bind.
  - apply okx_concatM. intros rt Hrt. apply in_rev in Hrt. apply insert_item_oka.
    apply (Hpend rt (t, ip) Hrt). left. reflexivity.
  - intros rts1 H1. apply IH; [assumption | assumption|].
    intros new [t' q] Hnew Htp. simpl.
    destruct (concatM_In _ _ _ _ H1 Hnew) as (rt & zs & Hrt & Hf & Hz). apply in_rev in Hrt.
    destruct (Hpend rt (t', q) Hrt (or_intror Htp)) as (n & Hn & Hk & Hl). simpl in Hn, Hl.
    exists n. split; [|auto].
    eapply insert_item_keeps_apart; try eassumption.
    rewrite Forall_forall in Hap. apply Hap. apply in_map_iff. exists (t', q). auto.
Qed.

(* ---------- combination_ok gives pairwise non-nested paths ---------- *)
Definition pw_inner (i : nat) (p : path) :=
  fix inner (j : nat) (qs : list path) : bool :=
    match qs with
    | [] => true
    | q :: qs' => (Nat.eqb i j || negb (nested p q)) && inner (S j) qs'
    end.

Lemma pairwise_unfold i p ps all :
  pairwise_ok_from i (p :: ps) all = pw_inner i p 0 all && pairwise_ok_from (S i) ps all.
Proof. reflexivity. Qed.

Lemma pw_inner_spec i p : forall qs j k q,
  pw_inner i p j qs = true -> nth_error qs k = Some q -> i <> j + k -> nested p q = false.
Proof.
  induction qs as [|q0 qs IH]; intros j k q H Hk Hne; [destruct k; discriminate|].
  simpl in H. apply andb_true_iff in H as [H0 H].
  destruct k as [|k]; simpl in Hk.
  - inversion Hk; subst. apply orb_true_iff in H0 as [H0|H0].
    + apply Nat.eqb_eq in H0. lia.
    + apply negb_true_iff in H0. assumption.
  - apply (IH (S j) k q H Hk). lia.
Qed.

Lemma pairwise_nonnest : forall ps pre,
  pairwise_ok_from (length pre) ps (pre ++ ps) = true -> nonnest ps.
Proof.
  induction ps as [|p ps IH]; intros pre H; simpl; [exact I|].
  rewrite pairwise_unfold in H. apply andb_true_iff in H as [H1 H2]. split.
  - apply Forall_forall. intros q Hq. apply In_nth_error in Hq as (k & Hk).
    apply nested_false. apply (pw_inner_spec _ _ _ 0 (length pre + S k) q H1).
    + rewrite nth_error_app2 by lia. replace (length pre + S k - length pre) with (S k) by lia.
      exact Hk.
    + lia.
  - apply (IH (pre ++ [p])).
    rewrite app_length, <- app_assoc. simpl. rewrite Nat.add_1_r. exact H2.
Qed.

Lemma combination_ok_nonnest ps : combination_ok ps = true -> nonnest ps.
Proof.
  unfold combination_ok. destruct ps as [|p ps]; [discriminate|]. intro H.
  apply (pairwise_nonnest (p :: ps) []). exact H.
Qed.

(* ---------- the combinations of insert_trees ---------- *)
Lemma combine_product_In {A B} : forall (pp : list (A * list B)) ps a b,
  Forall2 (fun p l => In p l) ps (map snd pp) ->
  In (a, b) (combine (map fst pp) ps) -> exists l, In (a, l) pp /\ In b l.
Proof.
  induction pp as [|[a0 l0] pp IH]; intros ps a b HF Hin; simpl in *; [contradiction|].
  inversion HF as [|p ? ps' ? Hp HF']; subst. simpl in Hin. destruct Hin as [E|Hin].
  - inversion E; subst. exists l0. auto.
  - destruct (IH _ _ _ HF' Hin) as (l & Hl & Hb). exists l. auto.
Qed.

Lemma map_snd_combine {A B} : forall (xs : list A) (ys : list B),
  length xs = length ys -> map snd (combine xs ys) = ys.
Proof.
  induction xs as [|x xs IH]; intros [|y ys] H; simpl in *; try discriminate; [reflexivity|].
  f_equal. apply IH. lia.
Qed.

Lemma Forall2_length {A B} (R : A -> B -> Prop) xs ys : Forall2 R xs ys -> length xs = length ys.
Proof. induction 1; simpl; congruence. Qed.

Lemma pips_fits reach into t p : simple_root t -> In p (pips reach into t) -> fits into t p.
Proof.
  intros Hsr H. unfold pips in H. apply in_map_iff in H as ([q n] & <- & Hin).
  apply filter_In in Hin as [Hn Hf]. apply nodes_spec in Hn. apply andb_true_iff in Hf as [Hl He].
  simpl in *. exists n. split; [assumption|]. split.
  - unfold is_leaf in Hl. destruct (kids n); [reflexivity | discriminate].
  - destruct (is_nt (lbl t)) eqn:Hnt; [right; reflexivity|]. left.
    destruct Hsr as [Hc|Hk]; [congruence|].
    unfold cwamop_t in He. rewrite (cwamop_leaf _ _ Hk) in He. simpl in He.
    rewrite Hnt, andb_false_r, !orb_false_r in He. apply str_eqb_eq. assumption.
Qed.

Lemma combos_loop_oka g pb reach maxn into : forall cs acc,
  (forall c, In c cs -> oka (insert_items g pb reach c [into])) ->
  oka (combos_loop g pb reach maxn into cs acc).
Proof.
  induction cs as [|c cs IH]; intros acc H; simpl; [exact I|].
  destruct (Nat.leb maxn (length acc)); [exact I|].
  apply okx_bind; [apply H; left; reflexivity|].
  intros rs _. apply IH. intros c' Hc'. apply H. right. assumption.
Qed.

(* insert_trees never raises IndexError / StopIteration (only its assertions could fire) *)
Lemma insert_trees_oka g pb reach maxn ts into :
  Forall simple_root ts -> oka (insert_trees g pb reach maxn ts into).
Proof.
  intro Hts. unfold insert_trees. apply combos_loop_oka. intros c Hc.
  apply filter_In in Hc as [Hc Hok]. apply in_map_iff in Hc as (ps & <- & Hps).
  apply product_Forall2 in Hps.
  set (pp := filter (fun e : tree * list path => match snd e with [] => false | _ => true end)
                    (map (fun t => (t, pips reach into t)) ts)) in *.
  assert (Hlen : length (map fst pp) = length ps).
  { apply Forall2_length in Hps. rewrite !map_length in *. congruence. }
  assert (Hitem : forall t p, In (t, p) (combine (map fst pp) ps) ->
                    In t ts /\ In p (pips reach into t)).
  { intros t p Htp. destruct (combine_product_In pp ps t p Hps Htp) as (l & Hl & Hp).
    apply filter_In in Hl as [Hl _]. apply in_map_iff in Hl as (t' & E & Ht'). inversion E; subst.
    auto. }
  rewrite Forall_forall in Hts.
  apply insert_items_oka.
  - apply Forall_forall. intros [t p] Htp. simpl. apply Hts. apply (Hitem t p Htp).
  - apply combination_ok_nonnest. exact Hok.
  - intros rt [t p] [<-|[]] Htp. simpl. destruct (Hitem t p Htp) as [Ht Hp].
    apply (pips_fits reach); [apply Hts; assumption | assumption].
Qed.

(* ---------- compute_self_embeddings ---------- *)
Lemma self_loop_oka g maxn host cp cur :
  subtree host cp = Some cur -> forall insts acc, oka (self_loop g maxn host cp insts acc).
Proof.
  intros Hcur. induction insts as [|it insts IH]; intro acc; simpl; [exact I|].
  apply okx_bind; [apply okx_assert|]. intros _ _.
  destruct (Nat.leb maxn (length acc)); [exact I|]. rewrite Hcur.
  apply okx_bind; [apply okx_assert|]. intros _ _.
  destruct (replace_path_some host cp it cur Hcur) as (new & ->). simpl.
  apply okx_bind; [apply okx_assert|]. intros _ _.
  apply okx_bind; [apply okx_assert|]. intros _ _. apply IH.
Qed.

Lemma self_embeddings_oka g pb reach maxn cp ins host :
  valid host cp -> simple_root ins -> oka (self_embeddings g pb reach maxn cp ins host).
Proof.
  intros Hv Hins. unfold self_embeddings, valid in *.
  destruct (subtree host cp) as [cur|] eqn:Hcur; [|contradiction].
  destruct (negb (is_nt (lbl cur)) || negb (reach (lbl cur) (lbl cur))) eqn:Hguard; [exact I|].
  apply orb_false_iff in Hguard as [Hnt _]. apply negb_false_iff in Hnt.
  apply okx_bind; [apply okx_concatM; intros; apply path_to_tree_oka|]. intros sets _.
  apply okx_bind.
  - apply okx_concatM. intros set _. apply insert_trees_oka.
    constructor; [left; assumption|]. constructor; [assumption | constructor].
  - intros insts _. apply (self_loop_oka g maxn host cp cur). assumption.
Qed.

(* ---------- compute_context_additions ---------- *)
Lemma ctx_subs_host host into cp cur s :
  subtree host cp = Some cur -> In s (map snd (ctx_collect host into cp cur)) ->
  exists p, subtree host p = Some s.
Proof.
  intros Hcur Hs. apply in_map_iff in Hs as (e & <- & He). exists (fst e).
  eapply ctx_collect_sub; eassumption.
Qed.

Lemma context_additions_oka g pb reach maxn cp ins host :
  wf_tree g host -> valid host cp -> oka (context_additions g pb reach maxn cp ins host).
Proof.
  intros Hhost Hv. unfold context_additions, valid in *.
  destruct (subtree host cp) as [cur|] eqn:Hcur; [|contradiction].
  destruct (negb (str_eqb (lbl cur) (lbl ins))); [exact I|].
  destruct (replace_path_some host cp ins cur Hcur) as (into & ->). simpl.
  apply okx_bind; [|intros; exact I].
  apply insert_trees_oka. apply Forall_forall. intros s Hs.
  destruct (ctx_subs_host _ _ _ _ _ Hcur Hs) as (p & Hp).
  eapply wf_simple_root. eapply wf_subtree; eassumption.
Qed.

Lemma context_additions_na g pb reach maxn cp ins host :
  closed_g g -> pb_ok pb -> wf_tree g host -> wf_tree g ins ->
  na (context_additions g pb reach maxn cp ins host).
Proof.
  intros Hc Hpb Hhost Hins. unfold context_additions.
  destruct (subtree host cp) as [cur|] eqn:Hcur; [|discriminate].
  destruct (negb (str_eqb (lbl cur) (lbl ins))) eqn:El; [apply na_ok|].
  apply negb_false_iff in El. apply str_eqb_eq in El.
  destruct (replace_at_some cp host ins cur Hcur) as (into & Hinto).
  unfold replace_path. rewrite Hinto. simpl.
  apply na_bind; [|intros; apply na_ok].
  apply insert_trees_na; try assumption.
  - exact (replace_at_wf_gen g cp host ins into cur Hhost Hinto Hcur (eq_sym El) Hins).
  - apply Forall_forall. intros s Hs. destruct (ctx_subs_host _ _ _ _ _ Hcur Hs) as (p & Hp).
    exact (wf_subtree g p host s Hhost Hp).
Qed.

(* what add_to_result asserts holds for every tree returned by compute_context_additions *)
Lemma context_additions_checked g pb reach maxn cp ins host r t :
  wf_tree g host -> wf_tree g ins ->
  context_additions g pb reach maxn cp ins host = Ok r -> In t r ->
  wf_tree g t /\ ids_kept host t = true.
Proof.
  intros Hhost Hins. unfold context_additions.
  destruct (subtree host cp) as [cur|] eqn:Hcur; [|discriminate].
  destruct (negb (str_eqb (lbl cur) (lbl ins))) eqn:El; [intro H; inversion H; subst; contradiction|].
  apply negb_false_iff in El. apply str_eqb_eq in El.
  intros H Hin. apply bind_ok in H as (into & Hinto & H). apply bind_ok in H as (rs & Hrs & H).
  inversion H; subst; clear H. apply filter_In in Hin as [Hin Hf].
  apply andb_true_iff in Hf as [_ Hk]. split; [|assumption].
  apply replace_path_ok in Hinto.
  eapply insert_trees_wf; [| |exact Hrs|exact Hin].
  - exact (replace_at_wf_gen g cp host ins into cur Hhost Hinto Hcur (eq_sym El) Hins).
  - apply Forall_forall. intros s Hs. destruct (ctx_subs_host _ _ _ _ _ Hcur Hs) as (p & Hp).
    exact (wf_subtree g p host s Hhost Hp).
Qed.

(* ---------- add_to_result ---------- *)
Lemma add_all_oka g host ins : forall new acc, oka (add_all g host ins new acc).
Proof.
  induction new as [|t new IH]; intro acc; simpl; [exact I|].
  apply okx_bind; [apply okx_assert|]. intros _ _.
  apply okx_bind; [apply okx_assert|]. intros _ _. apply IH.
Qed.

(* ---------- insert_tree, every mask ---------- *)
Section Loop.
  Variables (g : grammar) (chain : graph_chain) (pb : graph_paths) (maxn m : nat) (ins host : tree).
  Hypothesis (Hc : closed_g g) (Hch : chain_ok chain) (Hst : chain_start chain) (Hpb : pb_ok pb)
             (Hhost : wf_tree g host) (Hins : wf_tree g ins).

  Lemma insert_loop_na : forall cps acc, na (insert_loop g chain pb maxn m ins host cps acc).
  Proof.
    induction cps as [|cp cps IH]; intro acc; [apply na_ok|]. simpl.
    destruct (Nat.leb maxn (length acc)); [apply na_ok|].
    apply na_bind.
    { destruct (has_method m DIRECT); [|apply na_ok]. apply na_bind.
      - apply good_na. apply direct_embeddings_good; try assumption. discriminate.
      - intros r Hr. apply add_all_na. intros t Ht.
        pose proof (direct_ok g chain _ ins host r t Hc Hch Hhost Hins Hr Ht) as Hi.
        split; [apply Hi | eapply inserted_ids_kept; eassumption]. }
    intros acc1 _. apply na_bind.
    { destruct (has_method m SELF); [|apply na_ok]. apply na_bind.
      - apply self_embeddings_na; assumption.
      - intros r Hr. apply add_all_na. intros t Ht. eapply self_embeddings_checked; eassumption. }
    intros acc2 _. apply na_bind.
    { destruct (has_method m CONTEXT); [|apply na_ok]. apply na_bind.
      - apply context_additions_na; assumption.
      - intros r Hr. apply add_all_na. intros t Ht.
        eapply (context_additions_checked g pb); eassumption. }
    intros acc3 _. apply IH.
  Qed.

  Lemma insert_loop_okx strict :
    (strict = true -> has_method m DIRECT = true -> chain_conn g chain) ->
    forall cps acc, (forall cp, In cp cps -> valid host cp) ->
    okx strict (insert_loop g chain pb maxn m ins host cps acc).
  Proof.
    intros Hconn. induction cps as [|cp cps IH]; intros acc Hv; [exact I|]. simpl.
    destruct (Nat.leb maxn (length acc)); [exact I|].
    apply okx_bind.
    { destruct (has_method m DIRECT) eqn:Hd; [|exact I]. apply okx_bind.
      - apply good_okx. apply direct_embeddings_good; try assumption. intro Hs. auto.
      - intros r _. apply okx_weaken. apply add_all_oka. }
    intros acc1 _. apply okx_bind.
    { destruct (has_method m SELF); [|exact I]. apply okx_bind.
      - apply okx_weaken. apply self_embeddings_oka; [apply Hv; left; reflexivity|].
        eapply wf_simple_root; eassumption.
      - intros r _. apply okx_weaken. apply add_all_oka. }
    intros acc2 _. apply okx_bind.
    { destruct (has_method m CONTEXT); [|exact I]. apply okx_bind.
      - apply okx_weaken. apply (context_additions_oka g); [assumption | apply Hv; left; reflexivity].
      - intros r _. apply okx_weaken. apply add_all_oka. }
    intros acc3 _. apply IH. intros cp' Hcp'. apply Hv. right. assumption.
  Qed.
End Loop.

(* (1) no assertion can fire, whatever the method mask *)
Theorem insert_tree_no_assert g chain pb maxn m ins host :
  closed_g g -> chain_ok chain -> chain_start chain -> pb_ok pb ->
  wf_tree g host -> wf_tree g ins ->
  insert_tree g chain pb maxn m ins host <> Raise AssertErr.
Proof. intros. unfold insert_tree. apply insert_loop_na; assumption. Qed.

(* (2) the only exception the model can raise is the IndexError of wrap_in_tree_starting_in for a
   chain oracle that names unconnected symbols (DIRECT_EMBEDDING only) ... *)
Theorem insert_tree_outcomes g chain pb maxn m ins host :
  closed_g g -> chain_ok chain -> chain_start chain -> pb_ok pb ->
  wf_tree g host -> wf_tree g ins ->
  (exists rs, insert_tree g chain pb maxn m ins host = Ok rs) \/
  (has_method m DIRECT = true /\ insert_tree g chain pb maxn m ins host = Raise IndexErr).
Proof.
  intros Hc Hch Hst Hpb Hhost Hins.
  pose proof (insert_tree_no_assert g chain pb maxn m ins host Hc Hch Hst Hpb Hhost Hins) as Hna.
  assert (Hv : forall cp, In cp (positions host) -> valid host cp) by (intros cp H; apply positions_spec; exact H).
  destruct (has_method m DIRECT) eqn:Hd.
  - destruct (okx_false_na_cases (insert_tree g chain pb maxn m ins host)) as [H|H]; auto.
    unfold insert_tree. apply insert_loop_okx; try assumption. discriminate.
  - left. apply okx_true_na_ok; [|assumption].
    unfold insert_tree. apply insert_loop_okx; try assumption. intros _ H. congruence.
Qed.

(* ... and with a connected chain oracle the call returns a list, for every mask *)
Theorem insert_tree_total g chain pb maxn m ins host :
  closed_g g -> chain_ok chain -> chain_start chain ->
  (has_method m DIRECT = true -> chain_conn g chain) -> pb_ok pb ->
  wf_tree g host -> wf_tree g ins ->
  exists rs, insert_tree g chain pb maxn m ins host = Ok rs.
Proof.
  intros Hc Hch Hst Hconn Hpb Hhost Hins. apply okx_true_na_ok.
  - unfold insert_tree. apply insert_loop_okx; try assumption.
    + intros _. assumption.
    + intros cp H. apply positions_spec. exact H.
  - apply insert_tree_no_assert; assumption.
Qed.

(* ---------- n-item generalisation of two_items: every inserted tree survives ---------- *)
Lemma ipoint_apart rt ip ip' n a q b :
  ipoint rt ip ip' n -> subtree rt ip = Some a -> subtree rt q = Some b ->
  apart ip q -> apart ip' q.
Proof.
  intros Hip Ha Hb [Hn1 Hn2]. split.
  - intro Hp. destruct (ipoint_comparable _ _ _ _ _ _ _ Hip Ha Hb Hp); contradiction.
  - intro Hp. apply Hn2. eapply prefix_trans; [exact Hp|]. apply Hip.
Qed.

(* t sits at x in rt, below a point that is apart from every pending insertion path *)
Definition placed (items : list (tree * path)) (rt t : tree) : Prop :=
  exists x ip0, subtree rt x = Some t /\ prefix ip0 x /\ Forall (apart ip0) (map snd items).

Lemma insert_items_present g pb reach : forall items done rts rs,
  Forall (fun tp => simple_root (fst tp)) items ->
  nonnest (map snd items) -> pending items rts ->
  (forall rt t, In rt rts -> In t done -> placed items rt t) ->
  insert_items g pb reach items rts = Ok rs ->
  forall it t, In it rs -> In t done \/ In t (map fst items) -> exists x, subtree it x = Some t.
Proof.
  induction items as [|[t ip] items IH]; intros done rts rs Hsr Hnn Hpend Hdone H it t0 Hit Ht0;
    simpl in H.
  - inversion H; subst. destruct Ht0 as [Ht0|[]].
    destruct (Hdone it t0 Hit Ht0) as (x & _ & Hx & _). eauto.
  - apply bind_ok in H as (rts1 & H1 & H).
    inversion Hsr as [|? ? Ht Hsr']; subst. simpl in Ht. simpl in Hnn. destruct Hnn as [Hap Hnn].
    apply (IH (t :: done) rts1 rs Hsr' Hnn) with (it := it); try assumption.
    + (* pending *)
      intros new [t' q] Hnew Htp. simpl.
      destruct (concatM_In _ _ _ _ H1 Hnew) as (rt & zs & Hrt & Hf & Hz). apply in_rev in Hrt.
      destruct (Hpend rt (t', q) Hrt (or_intror Htp)) as (n & Hn & Hk & Hl). simpl in Hn, Hl.
      exists n. split; [|auto].
      eapply insert_item_keeps_apart; try eassumption.
      rewrite Forall_forall in Hap. apply Hap. apply in_map_iff. exists (t', q). auto.
    + (* placed *)
      intros new t1 Hnew Ht1.
      destruct (concatM_In _ _ _ _ H1 Hnew) as (rt & zs & Hrt & Hf & Hz). apply in_rev in Hrt.
      destruct (insert_item_place _ _ _ _ _ _ _ _ Ht Hf Hz)
        as (ip' & m & x & Hip & (ipt & Hipt) & Hpx & Hx & Hout).
      destruct (Hpend rt (t, ip) Hrt (or_introl eq_refl)) as (n & Hn & Hk & _). simpl in Hn.
      rewrite Hipt in Hn. inversion Hn; subst n; clear Hn.
      destruct Ht1 as [<-|Ht1].
      * exists x, ip'. split; [assumption|]. split; [assumption|].
        apply Forall_forall. intros q Hq. apply in_map_iff in Hq as ([t' q'] & <- & Htp). simpl.
        destruct (Hpend rt (t', q') Hrt (or_intror Htp)) as (n' & Hn' & _). simpl in Hn'.
        apply (ipoint_apart _ _ _ _ _ _ _ Hip Hipt Hn').
        rewrite Forall_forall in Hap. apply Hap. apply in_map_iff. exists (t', q'). auto.
      * destruct (Hdone rt t1 Hrt Ht1) as (x1 & ip1 & Hx1 & Hp1 & Hap1).
        simpl in Hap1. inversion Hap1 as [|? ? [Ha1 Ha2] Hap1']; subst.
        exists x1, ip1. split; [|auto].
        rewrite Hout; [assumption| |].
        -- intro Hp. destruct (ipoint_comparable _ _ _ _ _ _ _ Hip Hipt Hx1 Hp) as [Hc|Hc].
           ++ apply Ha1. eapply prefix_trans; eassumption.
           ++ pose proof (leaf_below _ _ _ _ _ Hipt Hk Hx1 Hc) as ->. contradiction.
        -- intro Hp. apply Ha1. eapply prefix_trans; [exact Hp1|].
           eapply prefix_trans; [exact Hp|]. apply Hip.
    + simpl in Ht0. destruct Ht0 as [Ht0|[Ht0|Ht0]]; [left; right; assumption | left; left; assumption | right; assumption].
Qed.

(* inversion of insert_trees down to the chosen combination *)
Lemma map_fst_combine {A B} : forall (xs : list A) (ys : list B),
  length xs = length ys -> map fst (combine xs ys) = xs.
Proof.
  induction xs as [|x xs IH]; intros [|y ys] H; simpl in *; try discriminate; [reflexivity|].
  f_equal. apply IH. lia.
Qed.

Lemma insert_trees_inv g pb reach maxn ts into rs it :
  insert_trees g pb reach maxn ts into = Ok rs -> In it rs ->
  exists c rs', insert_items g pb reach c [into] = Ok rs' /\ In it rs' /\
    combination_ok (map snd c) = true /\
    (forall t p, In (t, p) c -> In t ts /\ In p (pips reach into t)) /\
    (forall t, In t ts -> pips reach into t <> [] -> In t (map fst c)).
Proof.
  unfold insert_trees. intros H Hin.
  destruct (combos_loop_In _ _ _ _ _ _ _ _ _ H Hin) as [[]|(c & rs' & Hc & Hi & Ht)].
  exists c, rs'. split; [assumption|]. split; [assumption|].
  apply filter_In in Hc as [Hc Hok]. apply in_map_iff in Hc as (ps & <- & Hps).
  apply product_Forall2 in Hps.
  set (pp := filter (fun e : tree * list path => match snd e with [] => false | _ => true end)
                    (map (fun t => (t, pips reach into t)) ts)) in *.
  assert (Hlen : length (map fst pp) = length ps).
  { apply Forall2_length in Hps. rewrite !map_length in *. congruence. }
  split; [assumption|]. split.
  - intros t p Htp. destruct (combine_product_In pp ps t p Hps Htp) as (l & Hl & Hp).
    apply filter_In in Hl as [Hl _]. apply in_map_iff in Hl as (t' & E & Ht'). inversion E; subst.
    auto.
  - intros t Hts Hne. rewrite (map_fst_combine _ _ Hlen). apply in_map_iff.
    exists (t, pips reach into t). split; [reflexivity|]. apply filter_In. split.
    + apply in_map_iff. exists t. auto.
    + simpl. destruct (pips reach into t); [contradiction | reflexivity].
Qed.

(* insert_trees "really inserts" every tree that has a possible insertion point: it is a subtree
   of every returned tree (what is lost by context addition are nodes of `into`, never an
   inserted tree) *)
Theorem insert_trees_all_present g pb reach maxn ts into rs it t :
  Forall simple_root ts ->
  insert_trees g pb reach maxn ts into = Ok rs -> In it rs ->
  In t ts -> pips reach into t <> [] ->
  exists x, subtree it x = Some t.
Proof.
  intros Hts H Hit Ht Hne.
  destruct (insert_trees_inv _ _ _ _ _ _ _ _ H Hit) as (c & rs' & Hi & Hit' & Hok & Hitem & Hall).
  rewrite Forall_forall in Hts.
  apply (insert_items_present g pb reach c [] [into] rs') with (it := it); try assumption.
  - apply Forall_forall. intros [t' p] Htp. simpl. apply Hts. apply (Hitem t' p Htp).
  - apply combination_ok_nonnest. exact Hok.
  - intros rt [t' p] [<-|[]] Htp. simpl. destruct (Hitem t' p Htp) as [Ht' Hp].
    apply (pips_fits reach); [apply Hts; assumption | assumption].
  - intros rt t' _ [].
  - right. apply Hall; assumption.
Qed.

(* ---------- the full statement, guarded by the class of the open finding ---------- *)
Theorem insert_tree_full_noctx g chain pb maxn m ins host :
  closed_g g -> chain_ok chain -> chain_start chain ->
  (has_method m DIRECT = true -> chain_conn g chain) -> pb_ok pb ->
  wf_tree g host -> wf_tree g ins -> uniq_ids host ins -> K_ctx m = false ->
  exists rs, insert_tree g chain pb maxn m ins host = Ok rs /\
             forall t, In t rs -> inserted g host ins t.
Proof.
  intros Hc Hch Hst Hconn Hpb Hhost Hins Hu HK.
  destruct (insert_tree_total g chain pb maxn m ins host Hc Hch Hst Hconn Hpb Hhost Hins) as (rs & Hrs).
  exists rs. split; [assumption|]. intros t Ht. eapply insert_tree_noctx_ok; eassumption.
Qed.

(* every mask: total, and every result keeps all host nodes and the root of ins *)
Theorem insert_tree_full_lossy g chain pb maxn m ins host :
  closed_g g -> chain_ok chain -> chain_start chain ->
  (has_method m DIRECT = true -> chain_conn g chain) -> pb_ok pb ->
  wf_tree g host -> wf_tree g ins -> uniq_ids host ins ->
  exists rs, insert_tree g chain pb maxn m ins host = Ok rs /\
             forall t, In t rs -> inserted_lossy g host ins t.
Proof.
  intros Hc Hch Hst Hconn Hpb Hhost Hins Hu.
  destruct (insert_tree_total g chain pb maxn m ins host Hc Hch Hst Hconn Hpb Hhost Hins) as (rs & Hrs).
  exists rs. split; [assumption|]. intros t Ht.
  eapply insert_tree_lossy_ok; try eassumption. apply pb_ok_start. assumption.
Qed.

(* ---------- chain_conn cannot be dropped: a model-level witness ---------- *)
Definition jump_chain : graph_chain := fun A B => if is_nt B then Some [A; B] else None.

Example chain_conn_needed :
  chain_ok jump_chain /\ chain_start jump_chain /\
  insert_tree ex_g jump_chain ex_pb 50 DIRECT (Node s8 5 true []) (Node s0 2 true []) = Raise IndexErr.
Proof.
  split; [|split].
  - intros A B ch H. unfold jump_chain in H. destruct (is_nt B) eqn:HB; [|discriminate].
    inversion H; subst. exists A, [B]. repeat split; [discriminate|]. constructor; [assumption | constructor].
  - intros A B ch H. unfold jump_chain in H. destruct (is_nt B); [|discriminate]. inversion H; subst. eauto.
  - vm_compute. reflexivity.
Qed.

(* non-vacuity: all premises of insert_tree_full_lossy hold on the example, for the full mask 7 *)
Example total_hyps_satisfiable :
  closed_g ex_g /\ chain_ok ex_chain /\ chain_start ex_chain /\ chain_conn ex_g ex_chain /\
  pb_ok ex_pb /\ wf_tree ex_g ex_host /\ wf_tree ex_g ex_ins /\ uniq_ids ex_host ex_ins.
Proof.
  destruct ex_hyps as (H1 & H2 & H3 & H4). destruct ex_direct_hyps as (H5 & H6).
  repeat split; try assumption; try apply ex_pb_ok; apply ex_uniq.
Qed.

Example total_nonvacuous :
  exists rs, insert_tree ex_g ex_chain ex_pb 50 7 ex_ins ex_host = Ok rs /\ 3 <= length rs.
Proof. eexists. split; [vm_compute; reflexivity|]. simpl. lia. Qed.

(* ---------- executable check of all oracle premises on graph tables (used by the harness on
   the tables read off the real GrammarGraph of every grammar of the correspondence) ---------- *)
Definition oracle_okb (g : grammar) (ct : list (str * str * list str))
           (pt : list (str * str * list (list str))) : bool :=
  closed_gb g && chain_tblb ct && chain_start_tblb ct && forallb (fun e => linkedb g (snd e)) ct
  && pb_ok_tblb pt.

Lemma oracle_okb_sound g ct pt :
  oracle_okb g ct pt = true ->
  closed_g g /\ chain_ok (chain_of_tbl ct) /\ chain_start (chain_of_tbl ct) /\
  chain_conn g (chain_of_tbl ct) /\ pb_ok (lookup2 pt []).
Proof.
  unfold oracle_okb. intro H. apply andb_true_iff in H as [H H5]. apply andb_true_iff in H as [H H4].
  apply andb_true_iff in H as [H H3]. apply andb_true_iff in H as [H1 H2].
  repeat split.
  - apply closed_gb_spec; assumption.
  - apply chain_tbl_ok; assumption.
  - apply chain_start_tbl_ok; assumption.
  - apply chain_conn_tbl_ok; assumption.
  - apply pb_ok_tbl_ok; assumption.
Qed.

Theorem insert_tree_total_tbl g ct pt maxn m ins host :
  oracle_okb g ct pt = true -> wf_treeb g host = true -> wf_treeb g ins = true ->
  exists rs, insert_tree g (chain_of_tbl ct) (lookup2 pt []) maxn m ins host = Ok rs.
Proof.
  intros H Hh Hi. destruct (oracle_okb_sound g ct pt H) as (H1 & H2 & H3 & H4 & H5).
  apply insert_tree_total; try assumption; [intros _; assumption | |]; apply wf_treeb_spec; assumption.
Qed.

Example oracle_okb_ex : oracle_okb ex_g ex_chain_tbl ex_pb_tbl = true.
Proof. vm_compute. reflexivity. Qed.
