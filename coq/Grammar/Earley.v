(* C10 — model of isla/parser.py (EarleyParser, Parser.parse_on, prune_tree/coalesce) and of the
   grammar specialisation of ISLaSolver.parse (solver.py).  Model file: definitions only.

   Input grammar `g` is the CANONICAL grammar (result of parser.canonical / helpers.canonical:
   every alternative split into nonterminal tokens and maximal terminal strings).
   Strings are lists of code points; the chart works on the single-character-token grammar
   `cgram g` exactly as the Python code works on `self.cgrammar`.

   Two spots of the code are modelled in both their pinned and their repaired form, selected by
   booleans (the harness determines which form the tree under test has by replaying the
   recorded witnesses, see harness/c10.py and design_notes/C10.md):
     fxA = false : chart_parse seeds `tuple( *cgrammar[start])`   (TypeError for >= 2 alternatives,
                   the spurious item  start -> . () for 0 alternatives)
     fxA = true  : chart_parse seeds one item per alternative of start   (proposed fix C10-multistart)
     fxB = false : parse() takes the first FINISHED state named start in the last column,
                   whatever its origin column
     fxB = true  : ... with origin column 0                                (proposed fix C10-recstart) *)
From ISLA Require Export Grammar Outcome.
From Coq Require Import PeanoNat.

Definition START : str := [60;115;116;97;114;116;62]%N.   (* "<start>" *)
Definition WRAP : str := [60;62]%N.                        (* "<>" *)
Definition OutOfFuel : exn := OtherErr.   (* model ran out of fuel ~ Python RecursionError / no answer *)

(* ---------- single_char_tokens, the "<>" rule ---------- *)
Definition single (c : chr) : str := [c].
Definition sct_tok (g : grammar) (tok : str) : list str :=
  if defined g tok then [tok] else map single tok.
Definition sct_alt (g : grammar) (a : alt) : alt := flat_map (sct_tok g) a.
Definition sct (g : grammar) : grammar := map (fun r => (fst r, map (sct_alt g) (snd r))) g.

Fixpoint set_key (g : grammar) (A : str) (al : list alt) : grammar :=
  match g with
  | [] => [(A, al)]
  | (B, bl) :: g' => if str_eqb A B then (B, al) :: g' else (B, bl) :: set_key g' A al
  end.

(* Parser.__init__: self.cgrammar; cstart = the start symbol the parser object was built with *)
Definition cgram (g : grammar) (cstart : str) : grammar :=
  if Nat.eqb (length (alts g cstart)) 1 then sct g else set_key (sct g) WRAP [[cstart]].

(* ---------- nullable ---------- *)
Definition mem (s : str) (l : list str) : bool := existsb (str_eqb s) l.
Definition rules (g : grammar) : list (str * alt) :=
  flat_map (fun r => map (fun a => (fst r, a)) (snd r)) g.
Definition null_pass (rs : list (str * alt)) (ns : list str) : list str :=
  fold_left (fun ns r => if forallb (fun t => mem t ns) (snd r) && negb (mem (fst r) ns)
                         then ns ++ [fst r] else ns) rs ns.
Fixpoint iter {A} (n : nat) (f : A -> A) (x : A) : A :=
  match n with 0 => x | S n' => iter n' f (f x) end.
(* fixpoint(nullable_)({""}): a pass that adds nothing ends the loop; every productive pass adds
   a new key, so |g|+1 passes reach the fixpoint *)
Definition nullable (cg : grammar) : list str := iter (S (length cg)) (null_pass (rules cg)) [[]].

(* ---------- items, columns ---------- *)
Record item := Item { iname : str; iexpr : alt; idot : nat; iorg : nat }.
Definition item_eqb (a b : item) : bool :=
  str_eqb (iname a) (iname b) && alt_eqb (iexpr a) (iexpr b)
  && Nat.eqb (idot a) (idot b) && Nat.eqb (iorg a) (iorg b).
Definition column := list item.
Definition add (col : column) (it : item) : column :=
  if existsb (item_eqb it) col then col else col ++ [it].
Definition add_all (col : column) (its : list item) : column := fold_left add its col.
Definition at_dot (it : item) : option str := nth_error (iexpr it) (idot it).
Definition finished (it : item) : bool := Nat.leb (length (iexpr it)) (idot it).
Definition advance (it : item) : item := Item (iname it) (iexpr it) (S (idot it)) (iorg it).
Definition wants (A : str) (p : item) : bool :=
  match at_dot p with Some s => str_eqb s A | None => false end.

(* one iteration of the inner loop of fill_chart for state `st` of column i;
   prev = columns 0..i-1 (complete), cur = column i, nxt = column i+1, nl = its letter *)
Definition process (cg : grammar) (eps : list str) (prev : list column) (i : nat)
           (nl : option chr) (st : item) (cur nxt : column) : column * column :=
  match at_dot st with
  | None =>                                                        (* complete *)
      let src := if Nat.eqb (iorg st) i then cur else nth (iorg st) prev [] in
      (add_all cur (map advance (filter (wants (iname st)) src)), nxt)
  | Some sym =>
      if defined cg sym then                                       (* predict *)
        let cur1 := add_all cur (map (fun a => Item sym a 0 i) (alts cg sym)) in
        (if mem sym eps then add cur1 (advance st) else cur1, nxt)
      else match nl with                                           (* scan *)
           | Some c => if str_eqb sym [c] then (cur, add nxt (advance st)) else (cur, nxt)
           | None => (cur, nxt)
           end
  end.

(* `for state in col.states` over the growing list: position k *)
Fixpoint fill_col (fuel : nat) cg eps prev i nl (k : nat) (cur nxt : column) : option (column * column) :=
  match fuel with
  | 0 => None
  | S f => match nth_error cur k with
           | None => Some (cur, nxt)
           | Some st => let '(cur', nxt') := process cg eps prev i nl st cur nxt in
                        fill_col f cg eps prev i nl (S k) cur' nxt'
           end
  end.

Fixpoint fill_chart (fuel : nat) cg eps (prev : list column) (i : nat) (cur : column) (rest : str)
  : option (list column) :=
  match rest with
  | [] => match fill_col fuel cg eps prev i None 0 cur [] with
          | Some (c, _) => Some (prev ++ [c]) | None => None end
  | c :: rest' => match fill_col fuel cg eps prev i (Some c) 0 cur [] with
                  | Some (c', nxt) => fill_chart fuel cg eps (prev ++ [c']) (S i) nxt rest'
                  | None => None end
  end.

(* chart_parse: the initial states *)
Definition seeds (fxA : bool) (cg : grammar) (start : str) : res (list item) :=
  if negb (defined cg start) then Raise KeyErr
  else if fxA then Ok (map (fun a => Item start a 0 0) (alts cg start))
  else match alts cg start with
       | [] => Ok [Item start [] 0 0]
       | [a] => Ok [Item start a 0 0]
       | _ => Raise TypeErr
       end.

(* ---------- parse_paths / parse_forest / extract_trees ---------- *)
Inductive pelem := PT (c : str) | PN (it : item) (e : nat).

(* parse_paths(named_expr, chart, frm, til) on the REVERSED expression; result paths are in the
   order the Python code builds them (last symbol first) *)
Fixpoint ppaths (cg : grammar) (chart : list column) (w : str) (frm : nat) (rexpr : list str) (til : nat)
  : list (list pelem) :=
  match rexpr with
  | [] => if Nat.eqb til frm then [[]] else []
  | var :: e =>
      let starts :=
        if defined cg var then
          map (fun s => (PN s til, iorg s))
              (filter (fun s => finished s && str_eqb (iname s) var) (nth til chart []))
        else match til with
             | 0 => []
             | S t' => match nth_error w t' with
                       | Some c => if str_eqb var [c] then [(PT var, t')] else []
                       | None => []
                       end
             end in
      flat_map (fun es => map (cons (fst es)) (ppaths cg chart w frm e (snd es))) starts
  end.

Fixpoint product {A} (ls : list (list A)) : list (list A) :=
  match ls with
  | [] => [[]]
  | l :: ls' => flat_map (fun x => map (cons x) (product ls')) l
  end.

Fixpoint mapM {A B} (f : A -> option B) (l : list A) : option (list B) :=
  match l with
  | [] => Some []
  | x :: l' => match f x, mapM f l' with Some y, Some ys => Some (y :: ys) | _, _ => None end
  end.

Definition leaf (l : str) : tree := Node l 0%N false [].

(* extract_trees(parse_forest(chart, it)) as a list; None = out of fuel *)
Fixpoint trees (fuel : nat) (cg : grammar) (chart : list column) (w : str) (it : item) (e : nat)
  : option (list tree) :=
  match fuel with
  | 0 => None
  | S f =>
      let pes := match iexpr it with
                 | [] => []
                 | _ => ppaths cg chart w (iorg it) (rev (iexpr it)) e
                 end in
      match pes with
      | [] => Some [leaf (iname it)]
      | _ =>
          option_map (@concat tree)
            (mapM (fun pe =>
                     option_map (fun kss => map (Node (iname it) 0%N false) (product kss))
                       (mapM (fun el => match el with
                                        | PT c => Some [leaf c]
                                        | PN s e' => trees f cg chart w s e'
                                        end) (rev pe))) pes)
      end
  end.

(* ---------- prune_tree / coalesce ---------- *)
Definition flush (last : str) : list tree := match last with [] => [] | _ => [leaf last] end.
Fixpoint coalesce_from (g : grammar) (last : str) (ks : list tree) : list tree :=
  match ks with
  | [] => flush last
  | k :: ks' => if defined g (lbl k) then flush last ++ k :: coalesce_from g [] ks'
                else coalesce_from g (last ++ lbl k) ks'
  end.
Definition coalesce (g : grammar) (ks : list tree) : list tree := coalesce_from g [] ks.

(* prune_tree for names other than "<>" (no state is ever named "<>" when g does not define it;
   grammars defining "<>" are outside the model: earley_parse answers Raise NotImpl) *)
Fixpoint prune (g : grammar) (t : tree) : tree :=
  match t with Node l i o ks => Node l i o (coalesce g (map (prune g) ks)) end.

(* ---------- EarleyParser(g, start_symbol=cstart).parse_on(w, start): first k trees ---------- *)
Definition accepting (fxB : bool) (start : str) (s : item) : bool :=
  str_eqb (iname s) start && finished s && (negb fxB || Nat.eqb (iorg s) 0).

Definition chart_of (fxA : bool) (fuel : nat) (cg : grammar) (start : str) (w : str)
  : res (list column) :=
  match seeds fxA cg start with
  | Raise e => Raise e
  | Ok sd => match fill_chart fuel cg (nullable cg) [] 0 (add_all [] sd) w with
             | None => Raise OutOfFuel
             | Some chart => Ok chart
             end
  end.

Definition earley_parse (fxA fxB : bool) (fuel : nat) (g : grammar) (cstart start : str) (w : str)
           (k : nat) : res (list tree) :=
  if defined g WRAP then Raise NotImpl else
  let cg := cgram g cstart in
  match chart_of fxA fuel cg start w with
  | Raise e => Raise e
  | Ok chart =>
      match find (accepting fxB start) (last chart []) with
      | None => Raise SyntaxErr
      | Some st => match trees fuel cg chart w st (length w) with
                   | None => Raise OutOfFuel
                   | Some ts => Ok (firstn k (map (prune g) ts))
                   end
      end
  end.

(* recogniser only *)
Definition earley_accepts (fxA fxB : bool) (fuel : nat) (g : grammar) (cstart start : str) (w : str)
  : res bool :=
  match chart_of fxA fuel (cgram g cstart) start w with
  | Raise e => Raise e
  | Ok chart => Ok (existsb (accepting fxB start) (last chart []))
  end.

(* ---------- ISLaSolver.parse(inp, nonterminal, skip_check=True) ---------- *)
Definition nts_of (al : list alt) : list str := filter is_nt (concat al).
(* reachable_nonterminals: closure from <start>; |g|+1 rounds suffice *)
Definition reach_step (g : grammar) (seen : list str) : list str :=
  fold_left (fun acc A => fold_left (fun acc' B => if mem B acc' then acc' else acc' ++ [B])
                                    (nts_of (alts g A)) acc) seen seen.
Definition reachable (g : grammar) (A : str) : list str := iter (S (length g)) (reach_step g) [A].
Definition delete_unreachable (g : grammar) : grammar :=
  let r := reachable g START in filter (fun rule => mem (fst rule) r) g.
Definition specialise (g : grammar) (nt : str) : grammar :=
  if str_eqb nt START then g else delete_unreachable (set_key g START [[nt]]).

Definition solver_parse (fxA fxB : bool) (fuel : nat) (g : grammar) (nt : str) (w : str) : res tree :=
  match earley_parse fxA fxB fuel (specialise g nt) START START w 1 with
  | Raise e => Raise e
  | Ok [] => Raise StopIter
  | Ok (t :: _) =>
      if str_eqb nt START then Ok t
      else match kids t with k :: _ => Ok k | [] => Raise IndexErr end
  end.

(* ---------- comparison helpers for the correspondence check ---------- *)
Fixpoint tree_eqb (a b : tree) : bool :=
  match a, b with
  | Node l _ o ks, Node l' _ o' ks' =>
      str_eqb l l' && Bool.eqb o o' &&
      (fix go (xs ys : list tree) : bool :=
         match xs, ys with
         | [], [] => true
         | x :: xs', y :: ys' => tree_eqb x y && go xs' ys'
         | _, _ => false
         end) ks ks'
  end.
Fixpoint list_eqb {A} (eqb : A -> A -> bool) (xs ys : list A) : bool :=
  match xs, ys with
  | [], [] => true
  | x :: xs', y :: ys' => eqb x y && list_eqb eqb xs' ys'
  | _, _ => false
  end.

(* ---------- independent membership oracle (top-down, fuel = derivation depth) ---------- *)
Fixpoint splits {A} (l : list A) : list (list A * list A) :=
  match l with
  | [] => [([], [])]
  | x :: l' => ([], l) :: map (fun p => (x :: fst p, snd p)) (splits l')
  end.
Fixpoint strip_prefix (p s : str) : option str :=
  match p, s with
  | [], _ => Some s
  | a :: p', b :: s' => if N.eqb a b then strip_prefix p' s' else None
  | _ :: _, [] => None
  end.
(* derivesb fuel g syms w: syms =>* w with derivation trees of height <= fuel *)
Fixpoint derivesb (fuel : nat) (g : grammar) (syms : list str) (w : str) {struct fuel} : bool :=
  match fuel with
  | 0 => false
  | S f =>
      (fix go (syms : list str) (w : str) {struct syms} : bool :=
         match syms with
         | [] => match w with [] => true | _ => false end
         | x :: rest =>
             if is_nt x then
               existsb (fun uv => existsb (fun al => derivesb f g al (fst uv)) (alts g x)
                                  && go rest (snd uv)) (splits w)
             else match strip_prefix x w with
                  | Some w' => go rest w'
                  | None => false
                  end
         end) syms w
  end.
Definition Lb (fuel : nat) (g : grammar) (A : str) (w : str) : bool := derivesb fuel g [A] w.

(* ---------- classes of grammars (guards of the theorems, classes of the known findings) ---------- *)
Definition occurs_rhs (g : grammar) (A : str) : bool :=
  existsb (fun r => existsb (fun al => mem A al) (snd r)) g.
(* K_multistart: the start symbol does not have exactly one alternative *)
Definition K_multistart (g : grammar) (start : str) : bool := negb (Nat.eqb (length (alts g start)) 1).
(* K_recstart: the start symbol occurs on a right-hand side (of the parser's grammar; without the
   "<>" rule, i.e. when the constructor's start symbol has one alternative, this is
   occurs_rhs g start) *)
Definition K_recstart (g : grammar) (cstart start : str) : bool := occurs_rhs (cgram g cstart) start.

(* the shape of grammars produced by `canonical` from a grammar that is_valid_grammar accepts *)
Fixpoint no_adjacent_terminals (a : alt) : bool :=
  match a with
  | x :: ((y :: _) as a') => (is_nt x || is_nt y) && no_adjacent_terminals a'
  | _ => true
  end.
Definition canonical_form (g : grammar) : bool :=
  forallb (fun r => is_nt (fst r)) g &&
  forallb (fun r => forallb (fun al =>
     forallb (fun s => match s with [] => false | _ => Bool.eqb (is_nt s) (defined g s) end) al
     && no_adjacent_terminals al) (snd r)) g &&
  negb (defined g WRAP).
