(* C12 — proofs for the mutator model Grammar/Mutate.v. *)
From ISLA Require Import PathFacts Grammar GrammarFacts TreeFacts Fuzz FuzzFacts Mutate.
From Coq Require Import Lia.

(* ---- replacing the i-th element of a list ---- *)
Lemma nth_error_split_at {A} (l : list A) i x :
  nth_error l i = Some x -> l = firstn i l ++ x :: skipn (S i) l.
Proof.
  revert i; induction l as [|a l IH]; intros [|i] H; simpl in *; try discriminate.
  - inversion H; subst. reflexivity.
  - f_equal. apply IH. assumption.
Qed.

Lemma nth_error_upd_same {A} (l : list A) i x y :
  nth_error l i = Some x -> nth_error (firstn i l ++ y :: skipn (S i) l) i = Some y.
Proof.
  revert i; induction l as [|a l IH]; intros [|i] H; simpl in *; try discriminate.
  - reflexivity.
  - apply IH. assumption.
Qed.

Lemma nth_error_upd_other {A} (l : list A) i j y :
  i <> j -> nth_error (firstn i l ++ y :: skipn (S i) l) j = nth_error l j \/ nth_error l i = None.
Proof.
  revert i j; induction l as [|a l IH]; intros [|i] [|j] Hne; simpl; auto; try congruence.
  - destruct (IH i j) as [H|H]; auto.
Qed.

(* ---- subtrees of valid / closed trees ---- *)
Lemma subtree_wf g : forall p t s, wf_tree g t -> subtree t p = Some s -> wf_tree g s.
Proof.
  induction p as [|i p IH]; intros t s Hwf Hs; simpl in Hs.
  - inversion Hs; subst. assumption.
  - destruct t as [l id o ks]. simpl in Hs.
    destruct (nth_error ks i) as [k|] eqn:E; [|discriminate].
    destruct o.
    + destruct (wf_open_shape _ _ _ _ Hwf) as (-> & _). destruct i; discriminate.
    + pose proof (wf_kids _ _ _ _ Hwf) as Hk. rewrite Forall_forall in Hk.
      eapply IH; [apply Hk; eapply nth_error_In; eauto | eassumption].
Qed.

Lemma subtree_closed : forall p t s, is_openT t = false -> subtree t p = Some s -> is_openT s = false.
Proof.
  induction p as [|i p IH]; intros t s Hcl Hs; simpl in Hs.
  - inversion Hs; subst. assumption.
  - destruct t as [l id o ks]. simpl in Hs, Hcl.
    destruct (nth_error ks i) as [k|] eqn:E; [|discriminate].
    apply orb_false_iff in Hcl as [_ Hcl].
    eapply IH; [|eassumption].
    destruct (is_openT k) eqn:Ek; [|reflexivity].
    assert (existsb is_openT ks = true) by (apply existsb_exists; exists k; split; [eapply nth_error_In; eauto | assumption]).
    congruence.
Qed.

(* ---- replace_valid: the shared key lemma ---- *)
Theorem replace_valid g : forall p t s s' t',
  wf_tree g t -> subtree t p = Some s -> wf_tree g s' -> lbl s' = lbl s ->
  replace_path t p s' = Some t' ->
  wf_tree g t' /\ lbl t' = lbl t /\ (p <> [] -> tid t' = tid t).
Proof.
  induction p as [|i p IH]; intros t s s' t' Hwf Hs Hs' Hl Hr; simpl in Hs, Hr.
  - inversion Hs; subst. inversion Hr; subst. repeat split; auto. intro H; contradiction.
  - destruct t as [l id o ks]. simpl in Hs.
    destruct (nth_error ks i) as [k|] eqn:E; [|discriminate].
    destruct (replace_path k p s') as [k'|] eqn:Ek; [|discriminate]. inversion Hr; subst.
    assert (Hwk : wf_tree g k).
    { apply (subtree_wf g [i] (Node l id o ks) k Hwf). simpl. rewrite E. reflexivity. }
    destruct (IH _ _ _ _ Hwk Hs Hs' Hl Ek) as (Hwk' & Hlk' & _).
    repeat split; auto.
    apply (wf_child_subst g l id o (firstn i ks) k k' (skipn (S i) ks)); [|assumption|assumption].
    rewrite <- (nth_error_split_at ks i k E). assumption.
Qed.

Lemma replace_closed : forall p t s' t',
  is_openT t = false -> is_openT s' = false -> replace_path t p s' = Some t' -> is_openT t' = false.
Proof.
  induction p as [|i p IH]; intros t s' t' Hcl Hs' Hr; simpl in Hr.
  - inversion Hr; subst. assumption.
  - destruct t as [l id o ks].
    destruct (nth_error ks i) as [k|] eqn:E; [|discriminate].
    destruct (replace_path k p s') as [k'|] eqn:Ek; [|discriminate]. inversion Hr; subst.
    simpl in *. apply orb_false_iff in Hcl as [-> Hcl]. simpl.
    rewrite (nth_error_split_at ks i k E) in Hcl.
    rewrite existsb_app in *. simpl in *.
    apply orb_false_iff in Hcl as [H1 H2]. apply orb_false_iff in H2 as [H2 H3].
    rewrite H1, H3, (IH _ _ _ H2 Hs' Ek). reflexivity.
Qed.

(* replacing at p does not touch a position q that is neither above nor below p *)
Lemma replace_other : forall p q t s' t',
  replace_path t p s' = Some t' -> ~ prefix p q -> ~ prefix q p -> subtree t' q = subtree t q.
Proof.
  induction p as [|i p IH]; intros q t s' t' Hr Hpq Hqp.
  - exfalso. apply Hpq. apply prefix_nil.
  - destruct q as [|j q]; [exfalso; apply Hqp; apply prefix_nil|].
    destruct t as [l id o ks]. cbn [replace_path] in Hr.
    destruct (nth_error ks i) as [k|] eqn:E; [|discriminate].
    destruct (replace_path k p s') as [k'|] eqn:Ek; [|discriminate]. inversion Hr; subst. cbn [subtree kids].
    change (match ks with [] => [] | _ :: l0 => skipn i l0 end) with (skipn (S i) ks).
    destruct (Nat.eq_dec i j) as [Hij|Hne].
    + subst j. rewrite (nth_error_upd_same ks i k k' E), E.
      eapply IH; [eassumption | |]; intro H; [apply Hpq | apply Hqp]; apply prefix_cons; assumption.
    + destruct (nth_error_upd_other ks i j k' Hne) as [H|H]; [rewrite H; reflexivity | congruence].
Qed.

(* ---- swap ---- *)
Theorem swap_valid g t p1 p2 s1 s2 t1 t' :
  wf_tree g t -> subtree t p1 = Some s1 -> subtree t p2 = Some s2 ->
  ~ prefix p1 p2 -> ~ prefix p2 p1 -> lbl s1 = lbl s2 ->
  replace_path t p1 s2 = Some t1 -> replace_path t1 p2 s1 = Some t' ->
  wf_tree g t' /\ lbl t' = lbl t /\ tid t' = tid t.
Proof.
  intros Hwf H1 H2 N12 N21 Hl R1 R2.
  assert (W1 : wf_tree g s1) by (exact (subtree_wf g p1 t s1 Hwf H1)).
  assert (W2 : wf_tree g s2) by (exact (subtree_wf g p2 t s2 Hwf H2)).
  destruct (replace_valid g p1 t s1 s2 t1 Hwf H1 W2 (eq_sym Hl) R1) as (Wt1 & L1 & I1).
  assert (H2' : subtree t1 p2 = Some s2) by (rewrite (replace_other p1 p2 t s2 t1 R1 N12 N21); assumption).
  destruct (replace_valid g p2 t1 s2 s1 t' Wt1 H2' W1 Hl R2) as (Wt' & L2 & I2).
  assert (P1 : p1 <> []) by (intro E; subst; apply N12; apply prefix_nil).
  assert (P2 : p2 <> []) by (intro E; subst; apply N21; apply prefix_nil).
  repeat split; [assumption | congruence | rewrite (I2 P2); apply I1; assumption].
Qed.

Lemma swap_closed t p1 p2 s1 s2 t1 t' :
  is_openT t = false -> subtree t p1 = Some s1 -> subtree t p2 = Some s2 ->
  replace_path t p1 s2 = Some t1 -> replace_path t1 p2 s1 = Some t' -> is_openT t' = false.
Proof.
  intros Hcl H1 H2 R1 R2.
  eapply replace_closed; [| |exact R2].
  - eapply replace_closed; [exact Hcl | | exact R1]. exact (subtree_closed p2 t s2 Hcl H2).
  - exact (subtree_closed p1 t s1 Hcl H1).
Qed.

(* ---- pruning an inner node to an open leaf keeps validity ---- *)
Lemma inner_node_nt g s : wf_tree g s -> kids s <> [] -> opn s = false ->
  is_nt (lbl s) = true /\ defined g (lbl s) = true.
Proof.
  destruct s as [l i o [|k ks]]; simpl; intros Hwf Hk Ho; [contradiction|]. subst.
  eapply wf_inner_nt; eauto.
Qed.

Lemma closed_not_opn t : is_openT t = false -> opn t = false.
Proof. destruct t as [l i o ks]. simpl. intro H. apply orb_false_iff in H. tauto. Qed.

Lemma prune_valid g t p s j t1 :
  wf_tree g t -> subtree t p = Some s -> kids s <> [] ->
  replace_path t p (Node (lbl s) j true []) = Some t1 ->
  wf_tree g t1 /\ lbl t1 = lbl t.
Proof.
  intros Hwf Hs Hk Hr.
  assert (Ws : wf_tree g s) by (exact (subtree_wf g p t s Hwf Hs)).
  assert (Ho : opn s = false).
  { destruct s as [l i [|] ks]; [|reflexivity]. destruct (wf_open_shape _ _ _ _ Ws) as (-> & _). contradiction. }
  destruct (inner_node_nt g s Ws Hk Ho) as [Hnt Hd].
  destruct (replace_valid g p t s (Node (lbl s) j true []) t1 Hwf Hs) as (H1 & H2 & _); auto.
  apply wf_open; assumption.
Qed.

(* ---- every mutation step keeps: valid, closed, same root symbol ---- *)
Theorem mutate1_valid g t t' :
  uses_defined g -> wf_tree g t -> is_openT t = false -> mutate1 g t t' ->
  wf_tree g t' /\ is_openT t' = false /\ lbl t' = lbl t.
Proof.
  intros Hud Hwf Hcl Hm.
  destruct Hm as [t p s j t1 t' Hs Hk Hr Hf
                 | t p1 p2 s1 s2 t1 t' H1 H2 N12 N21 Hl R1 R2
                 | t p s j e q j' e' t1 t' Hs Hk He Hq Hsq Hre Hrt Hf].
  - destruct (prune_valid g t p s j t1 Hwf Hs Hk Hr) as [W1 L1].
    destruct (fuzz_expand_valid g t1 t' Hud W1 Hf) as (W & C & _ & L). split; [assumption | split; [assumption | rewrite L; assumption]].
  - destruct (swap_valid g t p1 p2 s1 s2 t1 t' Hwf H1 H2 N12 N21 Hl R1 R2) as (W & L & _).
    split; [assumption | split; [|assumption]].
    exact (swap_closed t p1 p2 s1 s2 t1 t' Hcl H1 H2 R1 R2).
  - assert (Ws : wf_tree g s) by (exact (subtree_wf g p t s Hwf Hs)).
    assert (Ho : opn s = false) by (apply closed_not_opn; exact (subtree_closed p t s Hcl Hs)).
    destruct (inner_node_nt g s Ws Hk Ho) as [Hnt Hd].
    assert (Wleaf : wf_tree g (Node (lbl s) j true [])) by (apply wf_open; assumption).
    destruct (expand_valid g _ e Hud Wleaf He) as [We Ce].
    apply completion_lbl in Ce. simpl in Ce.
    destruct (replace_valid g q e _ s e' We Hsq Ws eq_refl Hre) as (We' & Le' & _).
    destruct (replace_valid g p t s e' t1 Hwf Hs We' (eq_trans Le' Ce) Hrt) as (W1 & L1 & _).
    destruct (fuzz_expand_valid g t1 t' Hud W1 Hf) as (W & C & _ & L). split; [assumption | split; [assumption | rewrite L; assumption]].
Qed.

(* C12 (mutator half): whatever sequence of mutators is applied *)
Theorem mutate_valid g t t' :
  uses_defined g -> wf_tree g t -> is_openT t = false -> mutate_star g t t' ->
  wf_tree g t' /\ is_openT t' = false /\ lbl t' = lbl t.
Proof.
  intros Hud Hwf Hcl Hm. induction Hm as [t | t u v H1 _ IH]; [auto|].
  destruct (mutate1_valid g t u Hud Hwf Hcl H1) as (Wu & Cu & Lu).
  destruct (IH Wu Cu) as (Wv & Cv & Lv). repeat split; auto. congruence.
Qed.

Corollary mutate_language g t t' :
  uses_defined g -> wf_tree g t -> is_openT t = false -> mutate_star g t t' -> L g (lbl t) (yield t').
Proof.
  intros Hud Hwf Hcl Hm. destruct (mutate_valid g t t' Hud Hwf Hcl Hm) as (W & C & E).
  rewrite <- E. apply wf_closed_yield; assumption.
Qed.

(* ---- the acceptance procedures imply the property ---- *)
Theorem accept_mutate_sound g t out :
  accept_mutate g t out = true -> wf_tree g out /\ is_openT out = false /\ lbl out = lbl t.
Proof.
  unfold accept_mutate, closedb. rewrite !andb_true_iff, negb_true_iff, wf_treeb_spec, str_eqb_eq. tauto.
Qed.

Lemma has_kids_spec s : has_kids s = true <-> kids s <> [].
Proof. unfold has_kids. destruct (kids s); split; intro H; try discriminate; try reflexivity; contradiction. Qed.

Theorem accept_replace_sound g t out :
  wf_tree g t -> accept_replace g t out = true ->
  wf_tree g out /\ is_openT out = false /\ lbl out = lbl t /\
  exists p s t1, subtree t p = Some s /\ kids s <> [] /\
                 replace_path t p (Node (lbl s) 0 true []) = Some t1 /\ completion g t1 out.
Proof.
  intros Hwf H. unfold accept_replace, closedb in H. apply andb_true_iff in H as [Hcl H].
  apply negb_true_iff in Hcl. apply existsb_exists in H as ([p s] & Hin & H). simpl in H.
  apply andb_true_iff in H as [Hk H]. apply has_kids_spec in Hk. apply nodes_spec in Hin.
  destruct (replace_path t p (Node (lbl s) 0 true [])) as [t1|] eqn:Er; [|discriminate].
  apply is_completionb_spec in H.
  destruct (prune_valid g t p s 0%N t1 Hwf Hin Hk Er) as [W1 L1].
  repeat split.
  - eapply completion_wf; eauto.
  - assumption.
  - rewrite (completion_lbl _ _ _ H). assumption.
  - exists p, s, t1. auto.
Qed.

Lemma swap_at_spec t p1 p2 r :
  swap_at t p1 p2 = Some r <->
  exists s1 s2 t1, subtree t p1 = Some s1 /\ subtree t p2 = Some s2 /\ ~ prefix p1 p2 /\ ~ prefix p2 p1 /\
                   lbl s1 = lbl s2 /\ replace_path t p1 s2 = Some t1 /\ replace_path t1 p2 s1 = Some r.
Proof.
  unfold swap_at. split.
  - destruct (subtree t p1) as [s1|]; [|discriminate]. destruct (subtree t p2) as [s2|]; [|discriminate].
    destruct (prefixb p1 p2) eqn:E1; [discriminate|]. destruct (prefixb p2 p1) eqn:E2; [discriminate|]. simpl.
    destruct (str_eqb (lbl s1) (lbl s2)) eqn:El; [|discriminate]. apply str_eqb_eq in El.
    destruct (replace_path t p1 s2) as [t1|] eqn:R1; [|discriminate]. intro R2.
    exists s1, s2, t1. repeat split; auto.
    + intro H. apply prefixb_spec in H. congruence.
    + intro H. apply prefixb_spec in H. congruence.
  - intros (s1 & s2 & t1 & H1 & H2 & N12 & N21 & Hl & R1 & R2). rewrite H1, H2.
    destruct (prefixb p1 p2) eqn:E1; [apply prefixb_spec in E1; contradiction|].
    destruct (prefixb p2 p1) eqn:E2; [apply prefixb_spec in E2; contradiction|]. simpl.
    rewrite Hl, str_eqb_refl, R1. assumption.
Qed.

Theorem tree_eqb_eq a : forall b, tree_eqb a b = true <-> a = b.
Proof.
  induction a as [l i o ks IH] using tree_ind'. intros [l' i' o' ks']. simpl.
  rewrite !andb_true_iff, str_eqb_eq, N.eqb_eq, eqb_true_iff.
  assert (HA : forall ks',
    (fix all2 (ks ks' : list tree) {struct ks} : bool :=
       match ks, ks' with
       | [], [] => true
       | k :: r, k' :: r' => tree_eqb k k' && all2 r r'
       | _, _ => false
       end) ks ks' = true <-> ks = ks').
  { clear ks' l' i' o'. induction ks as [|k ks IHks]; intros [|k' ks'].
    - split; reflexivity.
    - split; discriminate.
    - split; discriminate.
    - inversion IH as [|x r Hx Hr]; subst. rewrite andb_true_iff, (IHks Hr), Hx.
      split; [intros [-> ->]; reflexivity | intro H; inversion H; subst; auto]. }
  rewrite HA. split.
  - intros [[[-> ->] ->] ->]. reflexivity.
  - intro H. inversion H; subst. auto.
Qed.

Theorem accept_swap_sound g t out :
  wf_tree g t -> is_openT t = false -> accept_swap t out = true ->
  wf_tree g out /\ is_openT out = false /\ lbl out = lbl t /\ tid out = tid t /\
  mutate1 g t out.
Proof.
  intros Hwf Hcl H. unfold accept_swap in H.
  apply existsb_exists in H as (p1 & _ & H). apply existsb_exists in H as (p2 & _ & H).
  destruct (swap_at t p1 p2) as [r|] eqn:E; [|discriminate]. apply tree_eqb_eq in H. subst r.
  apply swap_at_spec in E as (s1 & s2 & t1 & H1 & H2 & N12 & N21 & Hl & R1 & R2).
  destruct (swap_valid g t p1 p2 s1 s2 t1 out Hwf H1 H2 N12 N21 Hl R1 R2) as (W & L & I).
  repeat split; auto.
  - exact (swap_closed t p1 p2 s1 s2 t1 out Hcl H1 H2 R1 R2).
  - exact (m_swap g t p1 p2 s1 s2 t1 out H1 H2 N12 N21 Hl R1 R2).
Qed.

Theorem accept_generalize_sound g t out :
  wf_tree g t -> accept_generalize g t out = true ->
  wf_tree g out /\ is_openT out = false /\ lbl out = lbl t /\
  exists p q s, subtree t p = Some s /\ kids s <> [] /\ q <> [] /\ subtree out (p ++ q) = Some s.
Proof.
  intros Hwf H. unfold accept_generalize, closedb in H. apply andb_true_iff in H as [Hcl H].
  apply negb_true_iff in Hcl. apply existsb_exists in H as ([p s] & Hin & H). simpl in H.
  apply andb_true_iff in H as [Hk H]. apply has_kids_spec in Hk. apply nodes_spec in Hin.
  destruct (replace_path t p (Node (lbl s) 0 true [])) as [t1|] eqn:Er; [|discriminate].
  apply andb_true_iff in H as [Hc H]. apply is_completionb_spec in Hc.
  destruct (subtree out p) as [o|] eqn:Eo; [|discriminate].
  apply existsb_exists in H as ([q s'] & Hq & H). simpl in H. apply nodes_spec in Hq.
  destruct q as [|n q]; [discriminate|]. apply tree_eqb_eq in H. subst s'.
  destruct (prune_valid g t p s 0%N t1 Hwf Hin Hk Er) as [W1 L1].
  repeat split.
  - eapply completion_wf; eauto.
  - assumption.
  - rewrite (completion_lbl _ _ _ Hc). assumption.
  - exists p, (n :: q), s. repeat split; auto; [discriminate|]. rewrite subtree_app, Eo. assumption.
Qed.

(* ---- the recorded class K_no_inner: a closed tree without inner node has no mutation ---- *)
Lemma no_inner_no_subtree t p s : has_kids t = false -> subtree t p = Some s -> p = [] /\ s = t.
Proof.
  destruct t as [l i o [|k ks]]; [|discriminate]. intros _. destruct p as [|n p]; simpl.
  - intro H. inversion H. auto.
  - destruct n; discriminate.
Qed.

Theorem mutate_none_without_inner g t t' : K_no_inner t = true -> ~ mutate1 g t t'.
Proof.
  unfold K_no_inner. rewrite negb_true_iff. intros HK Hm.
  destruct Hm as [t p s j t1 t' Hs Hk Hr Hf
                 | t p1 p2 s1 s2 t1 t' H1 H2 N12 N21 Hl R1 R2
                 | t p s j e q j' e' t1 t' Hs Hk He Hq Hsq Hre Hrt Hf].
  - destruct (no_inner_no_subtree _ _ _ HK Hs) as [-> ->]. apply has_kids_spec in Hk. congruence.
  - destruct (no_inner_no_subtree _ _ _ HK H1) as [-> _]. apply N12. apply prefix_nil.
  - destruct (no_inner_no_subtree _ _ _ HK Hs) as [-> ->]. apply has_kids_spec in Hk. congruence.
Qed.

(* with an inner node and a grammar whose min-cost phase terminates, replace_subtree_randomly
   always has a result: mutate makes progress *)
Theorem mutate_total_partial g cost t :
  uses_defined g ->
  (forall A, defined g A = true -> exists a, In a (alts g A) /\ alt_cost cost a < cost A) ->
  wf_tree g t -> is_openT t = false -> K_no_inner t = false -> exists t', mutate1 g t t'.
Proof.
  intros Hud Hcost Hwf Hcl HK. unfold K_no_inner in HK. apply negb_false_iff in HK.
  apply has_kids_spec in HK.
  assert (Hs : subtree t [] = Some t) by reflexivity.
  destruct (prune_valid g t [] t 0%N (Node (lbl t) 0 true []) Hwf Hs HK eq_refl) as [W1 _].
  destruct (mincost_terminates g cost Hcost Hud _ W1) as (n & t' & Hst & Hc & _).
  exists t'. apply (m_replace g t [] t 0%N (Node (lbl t) 0 true []) t' Hs HK eq_refl).
  split; [|assumption].
  clear - Hst. induction Hst as [u | n u v w H1 _ IH]; [apply es_refl|].
  eapply es_step; [eapply expand1_min_sub; eauto | assumption].
Qed.

(* ---- non-vacuity ---- *)
Definition mx_t : tree :=
  Node ex_S 1 false [Node ex_A 2 false [Node [121]%N 3 false []]; Node [120]%N 4 false [];
                     Node ex_S 5 false [Node ex_A 6 false [Node [121]%N 7 false []]; Node [120]%N 8 false [];
                                        Node ex_S 9 false [Node [] 10 false []]]].
Definition mx_swapped : tree :=
  Node ex_S 1 false [Node ex_A 6 false [Node [121]%N 7 false []]; Node [120]%N 4 false [];
                     Node ex_S 5 false [Node ex_A 2 false [Node [121]%N 3 false []]; Node [120]%N 8 false [];
                                        Node ex_S 9 false [Node [] 10 false []]]].
(* <s> at [2] generalized: plugged into <s> ::= <a> x <s> *)
Definition mx_gen : tree :=
  Node ex_S 1 false [Node ex_A 2 false [Node [121]%N 3 false []]; Node [120]%N 4 false [];
                     Node ex_S 20 false [Node ex_A 21 false [Node [121]%N 23 false []]; Node [120]%N 22 false [];
                       Node ex_S 5 false [Node ex_A 6 false [Node [121]%N 7 false []]; Node [120]%N 8 false [];
                                          Node ex_S 9 false [Node [] 10 false []]]]].

Example mx_hyps : wf_treeb ex_g mx_t = true /\ is_openT mx_t = false /\ K_no_inner mx_t = false.
Proof. repeat split; reflexivity. Qed.

Example mx_accepts :
  accept_swap mx_t mx_swapped = true /\ accept_swap mx_t mx_t = false /\
  accept_generalize ex_g mx_t mx_gen = true /\ accept_generalize ex_g mx_t mx_swapped = false /\
  accept_replace ex_g mx_t mx_gen = true /\ accept_mutate ex_g mx_t mx_swapped = true.
Proof. repeat split; reflexivity. Qed.

Example mx_swap_step : mutate1 ex_g mx_t mx_swapped.
Proof.
  assert (W : wf_tree ex_g mx_t) by (apply wf_treeb_spec; reflexivity).
  apply (accept_swap_sound ex_g mx_t mx_swapped W); reflexivity.
Qed.

Example mx_refuted_witness :
  let g := [(start_sym, [[]; [[97]%N]])] in
  let t := Node start_sym 1 false [] in
  wf_treeb g t = true /\ is_openT t = false /\ K_no_inner t = true.
Proof. repeat split; reflexivity. Qed.
