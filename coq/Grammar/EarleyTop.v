(* C10 — from the chart invariant to statements about the canonical grammar g:
   facts about cgram, transfer of derivations cgram g -> g, soundness of acceptance,
   soundness of the membership oracle Lb. *)
From ISLA Require Import Grammar GrammarFacts Earley EarleyFacts EarleyPrune.
From Coq Require Import Lia PeanoNat.

(* ---------------- lookups in mapped / updated grammars ---------------- *)
Lemma alts_map (f : alt -> alt) (g : grammar) A :
  alts (map (fun r => (fst r, map f (snd r))) g) A = map f (alts g A).
Proof.
  induction g as [|[B al] g IH]; simpl; [reflexivity|].
  destruct (str_eqb A B); [reflexivity | exact IH].
Qed.

Lemma defined_map (f : alt -> alt) (g : grammar) A :
  defined (map (fun r => (fst r, map f (snd r))) g) A = defined g A.
Proof.
  unfold defined. induction g as [|[B al] g IH]; simpl; [reflexivity|]. rewrite IH. reflexivity.
Qed.

Lemma keys_map (f : alt -> alt) (g : grammar) :
  map fst (map (fun r => (fst r, map f (snd r))) g) = map fst g.
Proof. rewrite map_map. reflexivity. Qed.

Lemma alts_set_key g K al A : str_eqb A K = false -> alts (set_key g K al) A = alts g A.
Proof.
  intro H. induction g as [|[B bl] g IH]; simpl.
  - rewrite H. reflexivity.
  - destruct (str_eqb K B) eqn:E; simpl.
    + apply str_eqb_eq in E. subst B. rewrite H. reflexivity.
    + destruct (str_eqb A B); [reflexivity | exact IH].
Qed.

Lemma defined_set_key g K al A : defined (set_key g K al) A = defined g A || str_eqb A K.
Proof.
  unfold defined. induction g as [|[B bl] g IH]; simpl.
  - rewrite orb_false_r. reflexivity.
  - destruct (str_eqb K B) eqn:E; simpl.
    + apply str_eqb_eq in E. subst B. destruct (str_eqb A K); simpl; [reflexivity|].
      rewrite orb_false_r. reflexivity.
    + rewrite IH. rewrite orb_assoc. reflexivity.
Qed.

Lemma set_key_keys g K al : defined g K = false -> map fst (set_key g K al) = map fst g ++ [K].
Proof.
  unfold defined. induction g as [|[B bl] g IH]; simpl; intro H; [reflexivity|].
  apply orb_false_iff in H as [H1 H2]. rewrite H1. simpl. f_equal. apply IH. exact H2.
Qed.

Lemma defined_false_notin g K : defined g K = false -> ~ In K (map fst g).
Proof.
  unfold defined. intros H Hin. apply in_map_iff in Hin as (r & E & Hr).
  assert (existsb (fun r => str_eqb K (fst r)) g = true).
  { apply existsb_exists. exists r. split; [assumption | rewrite E; apply str_eqb_refl]. }
  congruence.
Qed.

Lemma NoDup_snoc {A} (l : list A) x : NoDup l -> ~ In x l -> NoDup (l ++ [x]).
Proof.
  induction l as [|y l IH]; intros Hnd Hx; simpl.
  - constructor; [intros [] | constructor].
  - inversion Hnd as [|y' l' Hy Hnd']; subst. constructor.
    + intro Hin. apply in_app_or in Hin as [Hin|[Hin|[]]]; [contradiction|].
      subst. apply Hx. left; reflexivity.
    + apply IH; [assumption | intro H; apply Hx; right; assumption].
Qed.

Lemma is_nt_WRAP : is_nt WRAP = true.
Proof. reflexivity. Qed.

Section Cgram.
  Variable g : grammar.
  Variable cstart : str.
  Hypothesis Hgood : good_grammar g.
  Hypothesis Hnd : NoDup (map fst g).
  Hypothesis Hw : defined g WRAP = false.
  Let cg := cgram g cstart.

  Lemma cg_alts A : defined g A = true -> alts cg A = map (sct_alt g) (alts g A).
  Proof.
    intro HA. unfold cg, cgram, sct.
    destruct (Nat.eqb (length (alts g cstart)) 1); [apply alts_map|].
    rewrite alts_set_key; [apply alts_map|].
    apply str_eqb_neq. intro E. subst A. congruence.
  Qed.

  Lemma cg_defined A : defined cg A = true -> defined g A = true \/ A = WRAP.
  Proof.
    unfold cg, cgram, sct. destruct (Nat.eqb (length (alts g cstart)) 1).
    - rewrite defined_map. auto.
    - rewrite defined_set_key, defined_map. intro H. apply orb_true_iff in H as [H|H]; [auto|].
      right. apply str_eqb_eq. exact H.
  Qed.

  Lemma cg_defined_of A : defined g A = true -> defined cg A = true.
  Proof.
    intro H. unfold cg, cgram, sct. destruct (Nat.eqb (length (alts g cstart)) 1).
    - rewrite defined_map. exact H.
    - rewrite defined_set_key, defined_map, H. reflexivity.
  Qed.

  Lemma cg_keys A : defined cg A = true -> is_nt A = true.
  Proof.
    intro H. destruct (cg_defined A H) as [H' | ->]; [|reflexivity].
    destruct Hgood as (Hk & _). apply Hk. exact H'.
  Qed.

  Lemma cg_NoDup : NoDup (map fst cg).
  Proof.
    unfold cg, cgram, sct. destruct (Nat.eqb (length (alts g cstart)) 1).
    - rewrite keys_map. exact Hnd.
    - rewrite set_key_keys by (rewrite defined_map; exact Hw). rewrite keys_map.
      apply NoDup_snoc; [exact Hnd | apply defined_false_notin; exact Hw].
  Qed.

  Definition tok_good (x : str) : Prop := x <> [] /\ is_nt x = defined g x.

  Lemma sct_alt_nil al : (forall x, In x al -> tok_good x) -> sct_alt g al = [] -> al = [].
  Proof.
    intros Hal H. destruct al as [|x al]; [reflexivity|]. exfalso.
    simpl in H. apply app_eq_nil in H as [H _]. unfold sct_tok in H.
    destruct (Hal x (or_introl eq_refl)) as [Hne _].
    destruct (defined g x); [discriminate|]. destruct x; [congruence | discriminate].
  Qed.

  (* a derivation in the parser's single-character grammar is a derivation in g *)
  Lemma transfer syms u : derives cg syms u ->
    forall s al, (forall x, In x al -> tok_good x) -> syms = map single s ++ sct_alt g al ->
    exists u', u = s ++ u' /\ derives g al u'.
  Proof.
    induction 1 as [|t rest u Ht Hd IH|A al0 rest u v HA Hin Hd1 IH1 Hd2 IH2]; intros s al Hal E.
    - symmetry in E. apply app_eq_nil in E as [E1 E2]. apply map_eq_nil in E1. subst s.
      apply sct_alt_nil in E2; [|assumption]. subst al. exists []. split; [reflexivity | constructor].
    - destruct s as [|c s'].
      + simpl in E. destruct al as [|x al']; [discriminate|]. simpl in E. unfold sct_tok in E.
        destruct (Hal x (or_introl eq_refl)) as [Hne Hnt].
        destruct (defined g x) eqn:Hdx.
        * simpl in E. inversion E; subst. congruence.
        * destruct x as [|c x']; [congruence|]. simpl in E. inversion E; subst.
          destruct (IH x' al') as (u' & -> & Hu'); [intros y Hy; apply Hal; right; assumption | reflexivity |].
          exists ((c :: x') ++ u'). split; [reflexivity|]. constructor; [exact Hnt | exact Hu'].
      + simpl in E. inversion E; subst.
        destruct (IH s' al Hal eq_refl) as (u' & -> & Hu'). exists u'. split; [reflexivity | exact Hu'].
    - destruct s as [|c s'].
      + simpl in E. destruct al as [|x al']; [discriminate|]. simpl in E. unfold sct_tok in E.
        destruct (Hal x (or_introl eq_refl)) as [Hne Hnt].
        destruct (defined g x) eqn:Hdx.
        * simpl in E. inversion E; subst.
          rewrite (cg_alts x Hdx) in Hin. apply in_map_iff in Hin as (al0' & <- & Hin').
          destruct Hgood as (_ & Htok & _).
          destruct (IH1 [] al0') as (u1 & -> & Hu1);
            [intros y Hy; apply (Htok x al0' y Hin' Hy) | reflexivity |].
          destruct (IH2 [] al') as (v1 & -> & Hv1);
            [intros y Hy; apply Hal; right; assumption | reflexivity |].
          exists (u1 ++ v1). split; [reflexivity|]. simpl. econstructor; eauto.
        * destruct x as [|c x']; [congruence|]. simpl in E. inversion E; subst.
          unfold single in HA. rewrite is_nt_single in HA. discriminate.
      + simpl in E. inversion E; subst. unfold single in HA. rewrite is_nt_single in HA. discriminate.
  Qed.

  Corollary transfer_L A u : defined g A = true -> derives cg [A] u -> L g A u.
  Proof.
    intros HA Hd. destruct Hgood as (Hk & _ & _).
    destruct (transfer [A] u Hd [] [A]) as (u' & -> & Hu').
    - intros x [<-|[]]. split; [|rewrite HA; apply Hk; exact HA].
      intro E. subst A. apply Hk in HA. discriminate HA.
    - simpl. unfold sct_tok. rewrite HA. reflexivity.
    - exact Hu'.
  Qed.

  (* ---------------- acceptance is sound ---------------- *)
  Lemma seeds_ok fxA start w sd :
    defined g start = true ->
    (fxA = true \/ K_multistart g start = false) ->
    seeds fxA cg start = Ok sd ->
    Forall (item_ok cg w start 0) sd.
  Proof.
    intros Hds Hg H. unfold seeds in H. rewrite (cg_defined_of start Hds) in H. simpl in H.
    assert (Hone : forall a, In a (alts cg start) -> item_ok cg w start 0 (Item start a 0 0)).
    { intros a Ha. unfold item_ok; simpl. repeat split; try lia.
      - apply cg_defined_of; exact Hds.
      - exact Ha.
      - rewrite sub_nil. constructor.
      - left; split; reflexivity. }
    destruct fxA.
    - inversion H; subst. apply Forall_forall. intros x Hx. apply in_map_iff in Hx as (a & <- & Ha).
      apply Hone; exact Ha.
    - destruct Hg as [Hg|Hg]; [discriminate|]. unfold K_multistart in Hg.
      apply negb_false_iff, Nat.eqb_eq in Hg.
      assert (Hl : length (alts cg start) = 1) by (rewrite (cg_alts start Hds), map_length; exact Hg).
      destruct (alts cg start) as [|a [|b l]] eqn:Ea; simpl in Hl; try discriminate.
      inversion H; subst. constructor; [|constructor]. apply Hone. left; reflexivity.
  Qed.

  Theorem chart_sound fxA fuel start w chart :
    defined g start = true -> (fxA = true \/ K_multistart g start = false) ->
    chart_of fxA fuel cg start w = Ok chart -> chart_ok cg w start chart.
  Proof.
    intros Hds Hg H. unfold chart_of in H.
    destruct (seeds fxA cg start) as [sd|e] eqn:Hs; [|discriminate].
    destruct (fill_chart fuel cg (nullable cg) [] 0 (add_all [] sd) w) as [ch|] eqn:Hf; [|discriminate].
    inversion H; subst ch.
    apply (item_sound_gen cg w (nullable cg) start cg_keys) with (fuel := fuel) (sd := sd).
    - intros A HA. apply (nullable_sound cg cg_keys cg_NoDup). exact HA.
    - eapply seeds_ok; eauto.
    - exact Hf.
  Qed.

  Theorem accept_sound fxA fxB fuel start w :
    defined g start = true ->
    (fxA = true \/ K_multistart g start = false) ->
    (fxB = true \/ K_recstart g cstart start = false) ->
    earley_accepts fxA fxB fuel g cstart start w = Ok true -> L g start w.
  Proof.
    intros Hds HgA HgB H. unfold earley_accepts in H. fold cg in H.
    destruct (chart_of fxA fuel cg start w) as [chart|e] eqn:Hc; [|discriminate].
    inversion H as [Hex]. apply transfer_L; [exact Hds|].
    apply (accept_sound_gen cg w start cg_keys chart fxB).
    - eapply chart_sound; eauto.
    - exact HgB.
    - exact Hex.
  Qed.
End Cgram.

(* ---------------- the membership oracle Lb is sound; complete for some fuel ---------------- *)
Lemma splits_spec {A} (l u v : list A) : In (u, v) (splits l) -> l = u ++ v.
Proof.
  revert u v; induction l as [|x l IH]; intros u v H; simpl in H.
  - destruct H as [H|[]]. inversion H; reflexivity.
  - destruct H as [H|H]; [inversion H; reflexivity|].
    apply in_map_iff in H as ([u' v'] & E & Hin). inversion E; subst. simpl.
    f_equal. apply IH. exact Hin.
Qed.

Lemma splits_complete {A} (u v : list A) : In (u, v) (splits (u ++ v)).
Proof.
  induction u as [|x u IH]; simpl.
  - destruct v; simpl; left; reflexivity.
  - right. apply in_map_iff. exists (u, v). split; [reflexivity | exact IH].
Qed.

Lemma strip_prefix_spec p : forall s r, strip_prefix p s = Some r <-> s = p ++ r.
Proof.
  induction p as [|a p IH]; intros s r; simpl.
  - split; intro H; [inversion H; reflexivity | subst; reflexivity].
  - destruct s as [|b s]; [split; intro H; discriminate|].
    destruct (N.eqb a b) eqn:E.
    + apply N.eqb_eq in E. subst b. rewrite IH. split; intro H; [subst; reflexivity | inversion H; reflexivity].
    + apply N.eqb_neq in E. split; intro H; [discriminate | inversion H; congruence].
Qed.

Lemma derivesb_unfold f g syms w :
  derivesb (S f) g syms w =
  match syms with
  | [] => match w with [] => true | _ => false end
  | x :: rest =>
      if is_nt x then
        existsb (fun uv => existsb (fun al => derivesb f g al (fst uv)) (alts g x)
                           && derivesb (S f) g rest (snd uv)) (splits w)
      else match strip_prefix x w with
           | Some w' => derivesb (S f) g rest w'
           | None => false
           end
  end.
Proof. destruct syms; reflexivity. Qed.

Theorem derivesb_sound : forall fuel g syms w, derivesb fuel g syms w = true -> derives g syms w.
Proof.
  induction fuel as [|f IHf]; intros g syms; [intros w H; discriminate|].
  induction syms as [|x rest IHs]; intros w H; rewrite derivesb_unfold in H.
  - destruct w; [constructor | discriminate].
  - destruct (is_nt x) eqn:Hx.
    + apply existsb_exists in H as ([u v] & Hin & H). apply andb_true_iff in H as [H1 H2]. simpl in *.
      apply existsb_exists in H1 as (al & Hal & H1).
      apply splits_spec in Hin. subst w. econstructor; eauto.
    + destruct (strip_prefix x w) as [w'|] eqn:E; [|discriminate].
      apply strip_prefix_spec in E. subst w. constructor; [exact Hx | apply IHs; exact H].
Qed.

Theorem derivesb_mono : forall f1 f2 g syms w, f1 <= f2 -> derivesb f1 g syms w = true -> derivesb f2 g syms w = true.
Proof.
  induction f1 as [|f1 IHf]; intros f2 g syms w Hle H; [discriminate|].
  destruct f2 as [|f2]; [lia|]. revert w H.
  induction syms as [|x rest IHs]; intros w H; rewrite derivesb_unfold in *; [exact H|].
  destruct (is_nt x).
  - apply existsb_exists in H as ([u v] & Hin & H). apply andb_true_iff in H as [H1 H2]. simpl in *.
    apply existsb_exists in H1 as (al & Hal & H1).
    apply existsb_exists. exists (u, v). split; [exact Hin|]. apply andb_true_iff. split.
    + apply existsb_exists. exists al. split; [exact Hal | apply (IHf f2); [lia | exact H1]].
    + apply IHs. exact H2.
  - destruct (strip_prefix x w) as [w'|]; [apply IHs; exact H | discriminate].
Qed.

Theorem derivesb_complete : forall g syms w, derives g syms w -> exists fuel, derivesb fuel g syms w = true.
Proof.
  induction 1 as [|t rest u Ht Hd [f Hf]|A al rest u v HA Hin Hd1 [f1 Hf1] Hd2 [f2 Hf2]].
  - exists 1. reflexivity.
  - destruct f as [|f]; [discriminate|]. exists (S f). rewrite derivesb_unfold, Ht.
    assert (E : strip_prefix t (t ++ u) = Some u) by (apply strip_prefix_spec; reflexivity).
    rewrite E. exact Hf.
  - exists (S (Nat.max f1 f2)). rewrite derivesb_unfold, HA.
    apply existsb_exists. exists (u, v). split; [apply splits_complete|]. cbn [fst snd].
    apply andb_true_iff. split.
    + apply existsb_exists. exists al. split; [exact Hin|].
      apply (derivesb_mono f1); [lia | exact Hf1].
    + apply (derivesb_mono f2); [lia | exact Hf2].
Qed.

Theorem Lb_sound : forall fuel g A w, Lb fuel g A w = true -> L g A w.
Proof. intros fuel g A w H. apply (derivesb_sound fuel). exact H. Qed.

Theorem Lb_complete : forall g A w, L g A w -> exists fuel, forall f, fuel <= f -> Lb f g A w = true.
Proof.
  intros g A w H. destruct (derivesb_complete g [A] w H) as [fuel Hf].
  exists fuel. intros f Hle. apply (derivesb_mono fuel); assumption.
Qed.
