(* C10 — specification-side facts and proofs about the Earley model (Grammar/Earley.v).
   Specification vocabulary: Grammar.v (`derives`, `L`, `wf_tree`).  *)
From ISLA Require Import Grammar GrammarFacts Earley.
From Coq Require Import Lia PeanoNat.

(* ------------------------------------------------------------------ *)
(* substrings                                                          *)
(* ------------------------------------------------------------------ *)
Definition sub (w : str) (i j : nat) : str := firstn (j - i) (skipn i w).

Lemma is_nt_single c : is_nt [c] = false.
Proof. unfold is_nt. simpl. apply andb_false_r. Qed.

Lemma firstn_skipn_add {A} (a b : nat) (v : list A) :
  firstn a v ++ firstn b (skipn a v) = firstn (a + b) v.
Proof.
  revert v; induction a as [|a IH]; intros v; simpl; [reflexivity|].
  destruct v as [|x v]; simpl.
  - apply firstn_nil.
  - f_equal. apply IH.
Qed.

Lemma skipn_add {A} (a b : nat) (v : list A) : skipn (a + b) v = skipn b (skipn a v).
Proof.
  revert v; induction a as [|a IH]; intros v; simpl; [reflexivity|].
  destruct v as [|x v]; simpl; [symmetry; apply skipn_nil | apply IH].
Qed.

Lemma sub_nil w i : sub w i i = [].
Proof. unfold sub. rewrite Nat.sub_diag. reflexivity. Qed.

Lemma sub_app w i j k : i <= j -> j <= k -> sub w i j ++ sub w j k = sub w i k.
Proof.
  intros Hij Hjk. unfold sub.
  assert (E : skipn j w = skipn (j - i) (skipn i w)) by (rewrite <- skipn_add; f_equal; lia).
  rewrite E, firstn_skipn_add. f_equal. lia.
Qed.

Lemma skipn_cons_nth {A} (l : list A) i c r :
  skipn i l = c :: r -> nth_error l i = Some c /\ skipn (S i) l = r.
Proof.
  revert l; induction i as [|i IH]; intros l H.
  - destruct l as [|x l]; simpl in H; [discriminate|]. inversion H; subst. split; reflexivity.
  - destruct l as [|x l]; simpl in H; [discriminate|]. apply IH in H. exact H.
Qed.

Lemma nth_skipn_one {A} (l : list A) i c : nth_error l i = Some c -> firstn 1 (skipn i l) = [c].
Proof.
  revert l; induction i as [|i IH]; intros l H; destruct l as [|x l]; simpl in *; try discriminate.
  - inversion H; reflexivity.
  - apply IH; assumption.
Qed.

Lemma sub_snoc w i j c : nth_error w j = Some c -> i <= j -> sub w i (S j) = sub w i j ++ [c].
Proof.
  intros Hn Hij. rewrite <- (sub_app w i j (S j)) by lia. f_equal.
  unfold sub. replace (S j - j) with 1 by lia. apply nth_skipn_one; assumption.
Qed.

Lemma sub_full w : sub w 0 (length w) = w.
Proof. unfold sub. rewrite Nat.sub_0_r. simpl. apply firstn_all. Qed.

Lemma firstn_S_nth {A} (l : list A) d x : nth_error l d = Some x -> firstn (S d) l = firstn d l ++ [x].
Proof.
  revert l; induction d as [|d IH]; intros l H; destruct l as [|y l]; simpl in *; try discriminate.
  - inversion H; reflexivity.
  - f_equal. apply IH; assumption.
Qed.

(* ------------------------------------------------------------------ *)
(* columns                                                             *)
(* ------------------------------------------------------------------ *)
Lemma add_Forall (P : item -> Prop) col it : Forall P col -> P it -> Forall P (add col it).
Proof.
  intros Hc Hi. unfold add. destruct (existsb (item_eqb it) col); [assumption|].
  apply Forall_app; split; [assumption | constructor; [assumption | constructor]].
Qed.

Lemma add_all_Forall (P : item -> Prop) its : forall col,
  Forall P col -> Forall P its -> Forall P (add_all col its).
Proof.
  unfold add_all. induction its as [|x its IH]; intros col Hc Hi; simpl; [assumption|].
  inversion Hi as [|x' its' Hx Hits]; subst. apply IH; [apply add_Forall; assumption | assumption].
Qed.

Lemma alts_in (g : grammar) A e : In e (alts g A) -> exists r, In r g /\ In e (snd r).
Proof.
  induction g as [|[B al] g IH]; simpl; [contradiction|].
  destruct (str_eqb A B).
  - intro H. exists (B, al). split; [left; reflexivity | assumption].
  - intro H. destruct (IH H) as (r & Hr & He). exists r. split; [right; assumption | assumption].
Qed.

Lemma mem_In s l : mem s l = true <-> In s l.
Proof.
  unfold mem. rewrite existsb_exists. split.
  - intros (x & Hx & E). apply str_eqb_eq in E. subst. assumption.
  - intro H. exists s. split; [assumption | apply str_eqb_refl].
Qed.

Lemma occurs_rhs_intro (g : grammar) A e s : In e (alts g A) -> In s e -> occurs_rhs g s = true.
Proof.
  intros He Hs. destruct (alts_in g A e He) as (r & Hr & Her).
  unfold occurs_rhs. apply existsb_exists. exists r. split; [assumption|].
  apply existsb_exists. exists e. split; [assumption | apply mem_In; assumption].
Qed.

(* ------------------------------------------------------------------ *)
(* the chart invariant (item_sound)                                    *)
(* ------------------------------------------------------------------ *)
Section Chart.
  Variable cg : grammar.
  Variable w : str.
  Variable eps : list str.
  Variable start : str.
  Hypothesis Hkeys : forall A, defined cg A = true -> is_nt A = true.
  Hypothesis Heps : forall A, mem A eps = true -> derives cg [A] [].

  (* item (A -> alpha . beta, s) in column j:  alpha =>* w[s..j)  and A -> alpha beta is a rule;
     every item is the start item family at origin 0 or its name occurs on a right-hand side *)
  Definition item_ok (j : nat) (it : item) : Prop :=
    iorg it <= j /\ j <= length w /\ defined cg (iname it) = true /\
    In (iexpr it) (alts cg (iname it)) /\
    derives cg (firstn (idot it) (iexpr it)) (sub w (iorg it) j) /\
    ((iname it = start /\ iorg it = 0) \/ occurs_rhs cg (iname it) = true).

  Lemma finished_derives j st :
    item_ok j st -> at_dot st = None -> derives cg [iname st] (sub w (iorg st) j).
  Proof.
    intros (_ & _ & Hd & Hin & Hder & _) Hdot. unfold at_dot in Hdot.
    apply nth_error_None in Hdot. rewrite firstn_all2 in Hder by assumption.
    rewrite <- (app_nil_r (sub w (iorg st) j)).
    eapply d_nt; [apply Hkeys; assumption | exact Hin | exact Hder | constructor].
  Qed.

  Lemma advance_ok s j p A :
    item_ok s p -> at_dot p = Some A -> derives cg [A] (sub w s j) -> s <= j -> j <= length w ->
    item_ok j (advance p).
  Proof.
    intros (Ho & _ & Hd & Hin & Hder & Hst) Hdot HA Hsj Hj. unfold item_ok, advance; cbn [iname iexpr idot iorg].
    repeat split; try assumption; try lia.
    unfold at_dot in Hdot. rewrite (firstn_S_nth _ _ _ Hdot).
    rewrite <- (sub_app w (iorg p) s j) by lia. apply derives_app; assumption.
  Qed.

  Lemma process_ok prev i nl st cur nxt cur' nxt' :
    (forall j col, nth_error prev j = Some col -> Forall (item_ok j) col) -> length prev = i ->
    Forall (item_ok i) cur -> Forall (item_ok (S i)) nxt -> item_ok i st ->
    (forall c, nl = Some c -> nth_error w i = Some c) ->
    process cg eps prev i nl st cur nxt = (cur', nxt') ->
    Forall (item_ok i) cur' /\ Forall (item_ok (S i)) nxt'.
  Proof.
    intros Hprev Hlen Hcur Hnxt Hst Hnl Hp. subst i. unfold process in Hp.
    assert (Hi : length prev <= length w) by (destruct Hst as (_ & H & _); exact H).
    destruct (at_dot st) as [sym|] eqn:Hdot.
    - destruct (defined cg sym) eqn:Hdef.
      + (* predict *)
        assert (Hocc : occurs_rhs cg sym = true).
        { destruct Hst as (_ & _ & _ & Hin & _). unfold at_dot in Hdot.
          eapply occurs_rhs_intro; [exact Hin | eapply nth_error_In; exact Hdot]. }
        assert (Hc1 : Forall (item_ok (length prev)) (add_all cur (map (fun a => Item sym a 0 (length prev)) (alts cg sym)))).
        { apply add_all_Forall; [assumption|]. apply Forall_forall. intros x Hx.
          apply in_map_iff in Hx as (a & <- & Ha). unfold item_ok; simpl.
          repeat split; try assumption; try lia.
          - rewrite sub_nil. constructor.
          - right; assumption. }
        destruct (mem sym eps) eqn:Hm; inversion Hp; subst; split; try assumption.
        apply add_Forall; [assumption|].
        apply (advance_ok (length prev) (length prev) st sym); try assumption; try lia.
        rewrite sub_nil. apply Heps; assumption.
      + (* scan *)
        destruct nl as [c|]; [|inversion Hp; subst; split; assumption].
        destruct (str_eqb sym [c]) eqn:E; inversion Hp; subst; split; try assumption.
        apply str_eqb_eq in E. subst sym.
        specialize (Hnl c eq_refl).
        assert (Hlt : length prev < length w) by (apply nth_error_Some; congruence).
        apply add_Forall; [assumption|].
        destruct Hst as (Ho & _ & Hd & Hin & Hder & Hs). unfold item_ok, advance; cbn [iname iexpr idot iorg].
        repeat split; try assumption; try lia.
        unfold at_dot in Hdot. rewrite (firstn_S_nth _ _ _ Hdot).
        rewrite (sub_snoc w (iorg st) (length prev) c Hnl Ho).
        apply derives_app; [assumption|].
        rewrite <- (app_nil_r [c]). constructor; [apply is_nt_single | constructor].
    - (* complete *)
      inversion Hp; subst; clear Hp. split; [|assumption].
      pose proof (finished_derives (length prev) st Hst Hdot) as HA.
      assert (Ho : iorg st <= length prev) by (destruct Hst as (H & _); exact H).
      assert (Hsrc : Forall (item_ok (iorg st))
                       (if Nat.eqb (iorg st) (length prev) then cur else nth (iorg st) prev [])).
      { destruct (Nat.eqb (iorg st) (length prev)) eqn:E.
        - apply Nat.eqb_eq in E. rewrite E. assumption.
        - apply Nat.eqb_neq in E. apply (Hprev (iorg st)).
          apply nth_error_nth'. lia. }
      apply add_all_Forall; [assumption|].
      apply Forall_forall. intros x Hx. apply in_map_iff in Hx as (p & <- & Hp).
      apply filter_In in Hp as [Hp Hw]. unfold wants in Hw.
      destruct (at_dot p) as [s|] eqn:Hpd; [|discriminate]. apply str_eqb_eq in Hw. subst s.
      rewrite Forall_forall in Hsrc.
      apply (advance_ok (iorg st) (length prev) p (iname st)); auto.
  Qed.

  Lemma fill_col_ok prev i nl : forall fuel k cur nxt cur' nxt',
    (forall j col, nth_error prev j = Some col -> Forall (item_ok j) col) -> length prev = i ->
    Forall (item_ok i) cur -> Forall (item_ok (S i)) nxt ->
    (forall c, nl = Some c -> nth_error w i = Some c) ->
    fill_col fuel cg eps prev i nl k cur nxt = Some (cur', nxt') ->
    Forall (item_ok i) cur' /\ Forall (item_ok (S i)) nxt'.
  Proof.
    induction fuel as [|f IH]; intros k cur nxt cur' nxt' Hprev Hlen Hcur Hnxt Hnl H; simpl in H;
      [discriminate|].
    destruct (nth_error cur k) as [st|] eqn:Hk.
    - destruct (process cg eps prev i nl st cur nxt) as [c1 n1] eqn:Hp.
      assert (Hst : item_ok i st).
      { rewrite Forall_forall in Hcur. apply Hcur. eapply nth_error_In; exact Hk. }
      destruct (process_ok prev i nl st cur nxt c1 n1 Hprev Hlen Hcur Hnxt Hst Hnl Hp) as [H1 H2].
      eapply IH; eauto.
    - inversion H; subst. split; assumption.
  Qed.

  Definition chart_ok (chart : list column) : Prop :=
    length chart = S (length w) /\
    forall j col, nth_error chart j = Some col -> Forall (item_ok j) col.

  Lemma prev_snoc_ok prev c :
    (forall j col, nth_error prev j = Some col -> Forall (item_ok j) col) ->
    Forall (item_ok (length prev)) c ->
    forall j col, nth_error (prev ++ [c]) j = Some col -> Forall (item_ok j) col.
  Proof.
    intros Hprev Hc j col Hj. destruct (Nat.lt_ge_cases j (length prev)) as [Hlt|Hge].
    - rewrite nth_error_app1 in Hj by assumption. eapply Hprev; eassumption.
    - rewrite nth_error_app2 in Hj by assumption.
      destruct (j - length prev) as [|d] eqn:E; simpl in Hj.
      + inversion Hj; subst. replace j with (length prev) by lia. assumption.
      + destruct d; discriminate.
  Qed.

  Lemma fill_chart_ok fuel : forall rest prev i cur chart,
    (forall j col, nth_error prev j = Some col -> Forall (item_ok j) col) -> length prev = i ->
    Forall (item_ok i) cur -> i <= length w -> skipn i w = rest ->
    fill_chart fuel cg eps prev i cur rest = Some chart -> chart_ok chart.
  Proof.
    induction rest as [|c rest IH]; intros prev i cur chart Hprev Hlen Hcur Hi Hsk H; simpl in H.
    - destruct (fill_col fuel cg eps prev i None 0 cur []) as [[c1 n1]|] eqn:Hf; [|discriminate].
      inversion H; subst chart; clear H.
      destruct (fill_col_ok prev i None fuel 0 cur [] c1 n1 Hprev Hlen Hcur (Forall_nil _)) as [H1 _];
        [intros c0 Hc0; discriminate | exact Hf |].
      assert (Hl : length w = i).
      { assert (Hz : length (skipn i w) = 0) by (rewrite Hsk; reflexivity).
        rewrite skipn_length in Hz. lia. }
      split.
      + rewrite app_length. simpl. unfold column in *. lia.
      + apply prev_snoc_ok; [assumption | rewrite Hlen; assumption].
    - destruct (fill_col fuel cg eps prev i (Some c) 0 cur []) as [[c1 n1]|] eqn:Hf; [|discriminate].
      destruct (skipn_cons_nth w i c rest Hsk) as [Hn Hsk'].
      destruct (fill_col_ok prev i (Some c) fuel 0 cur [] c1 n1 Hprev Hlen Hcur (Forall_nil _)) as [H1 H2];
        [intros c0 Hc0; inversion Hc0; subst; exact Hn | exact Hf |].
      assert (Hlt : i < length w) by (apply nth_error_Some; congruence).
      apply (IH (prev ++ [c1]) (S i) n1 chart); try assumption.
      + apply prev_snoc_ok; [assumption | rewrite Hlen; assumption].
      + rewrite app_length. simpl. unfold column in *. lia.
  Qed.

  (* every item of the finished chart is sound *)
  Theorem item_sound_gen fuel (sd : list item) chart :
    Forall (item_ok 0) sd ->
    fill_chart fuel cg eps [] 0 (add_all [] sd) w = Some chart -> chart_ok chart.
  Proof.
    intros Hsd H. apply (fill_chart_ok fuel w [] 0 (add_all [] sd) chart); try assumption.
    - intros j col Hj. destruct j; discriminate.
    - reflexivity.
    - apply add_all_Forall; [constructor | assumption].
    - lia.
    - reflexivity.
  Qed.

  Lemma last_nth (chart : list column) :
    length chart = S (length w) -> nth_error chart (length w) = Some (last chart []).
  Proof.
    intro Hl. destruct (exists_last (l := chart)) as (l' & x & E).
    { intro E. subst. discriminate. }
    subst chart. rewrite last_last. rewrite app_length in Hl. simpl in Hl.
    rewrite nth_error_app2 by lia. replace (length w - length l') with 0 by lia. reflexivity.
  Qed.

  (* acceptance: a finished start item with origin 0 in the last column proves membership *)
  Theorem accept_sound_gen chart fxB :
    chart_ok chart -> (fxB = true \/ occurs_rhs cg start = false) ->
    existsb (accepting fxB start) (last chart []) = true -> derives cg [start] w.
  Proof.
    intros [Hl Hok] Hg Hex. apply existsb_exists in Hex as (st & Hin & Hacc).
    pose proof (Hok _ _ (last_nth chart Hl)) as Hcol. rewrite Forall_forall in Hcol.
    specialize (Hcol st Hin). unfold accepting in Hacc.
    apply andb_true_iff in Hacc as [Hacc Ho]. apply andb_true_iff in Hacc as [Hn Hf].
    apply str_eqb_eq in Hn.
    assert (Hdot : at_dot st = None).
    { unfold at_dot. apply nth_error_None. unfold finished in Hf. apply Nat.leb_le in Hf. exact Hf. }
    pose proof (finished_derives _ _ Hcol Hdot) as Hd.
    assert (Horg : iorg st = 0).
    { destruct Hcol as (_ & _ & _ & _ & _ & [[_ H0]|Hocc]); [exact H0|].
      destruct Hg as [Hfx|Hno].
      - subst fxB. simpl in Ho. apply Nat.eqb_eq in Ho. exact Ho.
      - rewrite Hn in Hocc. congruence. }
    rewrite Horg, Hn, sub_full in Hd. exact Hd.
  Qed.
End Chart.

(* ------------------------------------------------------------------ *)
(* nullable is sound                                                    *)
(* ------------------------------------------------------------------ *)
Lemma rules_in (cg : grammar) A e : In (A, e) (rules cg) -> exists al, In (A, al) cg /\ In e al.
Proof.
  unfold rules. rewrite in_flat_map. intros ([B al] & Hr & Hm). simpl in Hm.
  apply in_map_iff in Hm as (a & E & Ha). inversion E; subst. exists al. split; assumption.
Qed.

Lemma alts_NoDup (cg : grammar) A al :
  NoDup (map fst cg) -> In (A, al) cg -> alts cg A = al.
Proof.
  induction cg as [|[B bl] cg IH]; intros Hnd Hin; simpl in *; [contradiction|].
  inversion Hnd as [|x l Hx Hnd']; subst.
  destruct Hin as [E|Hin].
  - inversion E; subst. rewrite str_eqb_refl. reflexivity.
  - destruct (str_eqb A B) eqn:E.
    + apply str_eqb_eq in E. subst. exfalso. apply Hx.
      apply in_map_iff. exists (B, al). split; [reflexivity | assumption].
    + apply IH; assumption.
Qed.

Lemma defined_In (cg : grammar) A al : In (A, al) cg -> defined cg A = true.
Proof.
  intro H. unfold defined. apply existsb_exists. exists (A, al). split; [assumption | apply str_eqb_refl].
Qed.

Section Nullable.
  Variable cg : grammar.
  Hypothesis Hkeys : forall A, defined cg A = true -> is_nt A = true.
  Hypothesis Hnd : NoDup (map fst cg).

  Definition null_ok (ns : list str) : Prop := forall A, In A ns -> derives cg [A] [].

  Lemma all_null_derives ns e :
    null_ok ns -> forallb (fun t => mem t ns) e = true -> derives cg e [].
  Proof.
    intros Hns. induction e as [|t e IH]; simpl; intro H; [constructor|].
    apply andb_true_iff in H as [Ht He]. apply mem_In in Ht.
    change (derives cg (t :: e) ([] ++ [])). apply derives_single_cons; [apply Hns; assumption | apply IH; assumption].
  Qed.

  Lemma null_pass_ok rs : (forall A e, In (A, e) rs -> In (A, e) (rules cg)) ->
    forall ns, null_ok ns -> null_ok (null_pass rs ns).
  Proof.
    unfold null_pass. induction rs as [|[A e] rs IH]; intros Hrs ns Hns; simpl; [assumption|].
    apply IH; [intros A' e' H'; apply Hrs; right; assumption|].
    destruct (forallb (fun t => mem t ns) e && negb (mem A ns)) eqn:E; [|assumption].
    apply andb_true_iff in E as [E _].
    intros B HB. apply in_app_or in HB as [HB|[HB|[]]]; [apply Hns; assumption|]. subst B.
    destruct (rules_in cg A e (Hrs A e (or_introl eq_refl))) as (al & Hal & He).
    change (derives cg [A] ([] ++ [])). eapply d_nt.
    - apply Hkeys. eapply defined_In; exact Hal.
    - rewrite (alts_NoDup cg A al Hnd Hal). exact He.
    - apply all_null_derives with (ns := ns); assumption.
    - constructor.
  Qed.

  Lemma iter_ok n f : (forall ns, null_ok ns -> null_ok (f ns)) -> forall ns, null_ok ns -> null_ok (iter n f ns).
  Proof. intro Hf. induction n as [|n IH]; intros ns Hns; simpl; [assumption | apply IH; apply Hf; assumption]. Qed.

  Theorem nullable_sound A : mem A (nullable cg) = true -> derives cg [A] [].
  Proof.
    intro H. apply mem_In in H. revert A H. change (null_ok (nullable cg)). unfold nullable.
    apply iter_ok.
    - apply null_pass_ok. intros A e H; exact H.
    - intros A [<-|[]].
      change (derives cg [[]] ([] ++ [])). constructor; [reflexivity | constructor].
  Qed.
End Nullable.
