(* C10 proof extension 2 — termination of the tree enumeration `trees` for grammars without
   cyclic unit/nullable derivations, within the SAME fuel bound as the chart (`fuel_bound`).
   Hence parse_complete: a member of the language is answered with a non-empty list of trees.

   The model's `trees` enumerates the whole forest (not lazily), so for infinitely ambiguous
   grammars it genuinely runs out of fuel; the side condition is the boolean `acyclicb`. *)
From ISLA Require Import Grammar GrammarFacts Earley EarleyFacts EarleyPrune EarleyTop EarleyTrees
  EarleyComplete EarleyForest EarleyFuel EarleyWrap EarleyCompleteMore.
From Coq Require Import Lia PeanoNat List Bool.
Import ListNotations.

(* ---------------- the guard: no cyclic unit/nullable derivation ---------------- *)
(* symbols x of e = a ++ x :: c such that every symbol of a and of c is in eps *)
Fixpoint usyms (eps : list str) (e : alt) : list str :=
  match e with
  | [] => []
  | x :: e' => (if forallb (fun t => mem t eps) e' then [x] else []) ++
               (if mem x eps then usyms eps e' else [])
  end.
(* names of the rules *)
Definition rnames (cg : grammar) : list str := map fst (rules cg).
(* unit successors of A: A -> a B c with a, c nullable and B the name of a rule *)
Definition usucc (cg : grammar) (eps : list str) (A : str) : list str :=
  filter (fun s => mem s (rnames cg)) (flat_map (usyms eps) (alts cg A)).
(* is there a walk of n unit steps from A *)
Fixpoint walkb (cg : grammar) (eps : list str) (n : nat) (A : str) : bool :=
  match n with 0 => true | S n' => existsb (walkb cg eps n') (usucc cg eps A) end.
(* a walk of |rules| steps visits |rules|+1 rule names, so it repeats one: a cycle A =>+ A;
   conversely a cycle gives walks of every length *)
Definition acyclicb (cg : grammar) : bool :=
  let eps := nullable cg in
  forallb (fun A => negb (walkb cg eps (length (rules cg)) A)) (rnames cg).

Lemma usyms_in eps a x c :
  Forall (fun t => mem t eps = true) a -> Forall (fun t => mem t eps = true) c ->
  In x (usyms eps (a ++ x :: c)).
Proof.
  intros Ha Hc. induction Ha as [|y a Hy Ha IH]; simpl.
  - apply in_or_app. left.
    assert (E : forallb (fun t => mem t eps) c = true) by (apply forallb_forall; apply Forall_forall; exact Hc).
    rewrite E. left. reflexivity.
  - apply in_or_app. right. rewrite Hy. exact IH.
Qed.

Lemma rules_le_shapes cg : length (rules cg) <= item_shapes cg.
Proof.
  unfold item_shapes. induction (rules cg) as [|r rs IH]; [apply Nat.le_refl|]. cbn [length fold_right]. lia.
Qed.

Lemma mapM_some {A B} (f : A -> option B) l :
  (forall x, In x l -> exists y, f x = Some y) -> exists ys, mapM f l = Some ys.
Proof.
  induction l as [|x l IH]; intro H; simpl; [eexists; reflexivity|].
  destruct (H x (or_introl eq_refl)) as [y ->].
  destruct IH as [ys ->]; [intros z Hz; apply H; right; exact Hz|]. eexists; reflexivity.
Qed.

Lemma trees_unfold f cg chart w it e :
  trees (S f) cg chart w it e =
  let pes := match iexpr it with
             | [] => []
             | _ => ppaths cg chart w (iorg it) (rev (iexpr it)) e
             end in
  match pes with
  | [] => Some [leaf (iname it)]
  | _ =>
      option_map (@concat tree)
        (mapM (fun pe =>
                 option_map (fun kss => map (Node (iname it) 0%N false) (product kss))
                   (mapM (fun el => match el with
                                    | PT c => Some [leaf c]
                                    | PN s e' => trees f cg chart w s e'
                                    end) (rev pe))) pes)
  end.
Proof. reflexivity. Qed.

Lemma finished_at_dot it : finished it = true -> at_dot it = None.
Proof. unfold finished, at_dot. intro H. apply Nat.leb_le in H. apply nth_error_None. exact H. Qed.

Section Term.
  Variable g : grammar.
  Variable cstart start : str.
  Variable w : str.
  Variable chart : list column.
  Let cg := cgram g cstart.
  Let eps := nullable cg.
  Let N := length (rules cg).
  Hypothesis Hkeys : forall A, defined cg A = true -> is_nt A = true.
  Hypothesis Hchart : chart_ok cg w start chart.
  Hypothesis Hacyc : acyclicb cg = true.

  Let nullableP (x : str) : Prop := mem x eps = true.

  Lemma colok e it : In it (nth e chart []) -> item_ok cg w start e it.
  Proof. apply col_ok. exact Hchart. Qed.

  (* a finished item whose origin is its own column: its name derives the empty string *)
  Lemma empty_span_nullable j s :
    In s (nth j chart []) -> finished s = true -> iorg s = j -> nullableP (iname s).
  Proof.
    intros Hin Hf Ho. unfold nullableP, eps. apply nullable_complete.
    pose proof (finished_derives cg w start Hkeys j s (colok j s Hin) (finished_at_dot s Hf)) as Hd.
    rewrite Ho, sub_nil in Hd. exact Hd.
  Qed.

  (* positions along a parse path decrease from til to frm; an element that spans the whole
     interval leaves only nullable symbols around it *)
  Lemma path_facts frm rexpr til pe : path_ok w chart frm rexpr til pe ->
    frm <= til /\
    (til = frm -> Forall nullableP rexpr) /\
    forall s e', In (PN s e') pe ->
      In s (nth e' chart []) /\ finished s = true /\ frm <= iorg s /\ iorg s <= e' /\ e' <= til /\
      (iorg s = frm -> e' = til ->
       exists a c, rexpr = a ++ iname s :: c /\ Forall nullableP a /\ Forall nullableP c).
  Proof.
    induction 1 as [|var e til el st pe' Hel Hpath IH].
    - split; [lia|]. split; [intros _; constructor|]. intros s e' [].
    - destruct IH as (Hle & Hall & Hels). destruct el as [c|s0 e0]; simpl in Hel.
      + destruct Hel as (_ & ch & _ & _ & Htil). split; [lia|]. split; [intro E; lia|].
        intros s e' [Hhd|Htl]; [discriminate Hhd|].
        destruct (Hels s e' Htl) as (H1 & H2 & H3 & H4 & H5 & _).
        split; [assumption|]. split; [assumption|]. split; [lia|]. split; [lia|]. split; [lia|]. intros _ E. lia.
      + destruct Hel as (He0 & Hin0 & Hf0 & Hn0 & Ho0). subst e0.
        pose proof (colok til s0 Hin0) as (Hst & _). rewrite Ho0 in Hst.
        split; [lia|]. split.
        * intro E. assert (Est : st = frm) by lia. constructor; [|apply Hall; exact Est].
          rewrite <- Hn0. apply (empty_span_nullable til s0 Hin0 Hf0). lia.
        * intros s e' [Hhd|Htl].
          -- inversion Hhd; subst s e'. split; [assumption|]. split; [assumption|]. split; [lia|]. split; [lia|]. split; [lia|].
             intros Eo _. exists [], e. rewrite Hn0. split; [reflexivity|]. split; [constructor|].
             apply Hall. lia.
          -- destruct (Hels s e' Htl) as (H1 & H2 & H3 & H4 & H5 & H6).
             split; [assumption|]. split; [assumption|]. split; [lia|]. split; [lia|]. split; [lia|].
             intros Eo Ee. assert (Est : st = til) by lia.
             destruct (H6 Eo) as (a & c & Ee' & Ha & Hc); [lia|].
             exists (var :: a), c. split; [rewrite Ee'; reflexivity|]. split; [|exact Hc].
             constructor; [|exact Ha]. rewrite <- Hn0.
             apply (empty_span_nullable til s0 Hin0 Hf0). lia.
  Qed.

  (* a child item with the same span is a unit successor *)
  Lemma same_span_usucc it e s e' pe :
    In it (nth e chart []) ->
    In pe (ppaths cg chart w (iorg it) (rev (iexpr it)) e) -> In (PN s e') pe ->
    iorg s = iorg it -> e' = e -> In (iname s) (usucc cg eps (iname it)).
  Proof.
    intros Hit Hpe Hel Eo Ee.
    pose proof (path_facts _ _ _ _ (ppaths_ok g cstart w chart _ _ _ _ Hpe)) as (_ & _ & Hels).
    destruct (Hels s e' Hel) as (Hin & _ & _ & _ & _ & H6).
    destruct (H6 Eo Ee) as (a & c & Erev & Ha & Hc).
    unfold usucc. apply filter_In. split.
    - apply in_flat_map. exists (iexpr it). split; [apply (colok e it Hit)|].
      assert (E : iexpr it = rev c ++ iname s :: rev a).
      { rewrite <- (rev_involutive (iexpr it)), Erev, rev_app_distr. simpl. rewrite <- app_assoc. reflexivity. }
      rewrite E. apply usyms_in; apply Forall_rev; assumption.
    - apply mem_In. unfold rnames. apply in_map_iff. exists (iname s, iexpr s). split; [reflexivity|].
      apply alts_rules. apply (colok e' s Hin).
  Qed.

  Lemma acyc_name A : In A (rnames cg) -> walkb cg eps N A = false.
  Proof.
    intro H. unfold acyclicb in Hacyc. rewrite forallb_forall in Hacyc.
    apply negb_true_iff. apply (Hacyc A H).
  Qed.

  (* fuel (e - origin) * N + m + 1 suffices when the item's name has no walk of m+1 unit steps *)
  Lemma trees_total_gen : forall f it e m,
    In it (nth e chart []) -> finished it = true ->
    walkb cg eps (S m) (iname it) = false ->
    (e - iorg it) * N + m + 1 <= f ->
    exists ts, trees f cg chart w it e = Some ts.
  Proof.
    induction f as [|f IH]; intros it e m Hit Hfin Hwalk Hfuel;
      [apply Nat.le_0_r in Hfuel; rewrite Nat.add_1_r in Hfuel; discriminate Hfuel|].
    rewrite trees_unfold.
    cbv zeta.
    remember (match iexpr it with
              | [] => []
              | _ => ppaths cg chart w (iorg it) (rev (iexpr it)) e
              end) as pes eqn:Epes.
    destruct pes as [|pe0 pes0]; [eexists; reflexivity|].
    assert (Hsub : forall pe, In pe (pe0 :: pes0) ->
                              In pe (ppaths cg chart w (iorg it) (rev (iexpr it)) e)).
    { rewrite Epes. destruct (iexpr it); [intros pe [] | intros pe H; exact H]. }
    clear Epes.
    match goal with |- exists ts, option_map _ ?M = Some ts =>
      assert (Hm : exists tss, M = Some tss); [|destruct Hm as [tss ->]; eexists; reflexivity] end.
    apply mapM_some. intros pe Hpe. apply Hsub in Hpe.
    match goal with |- exists y, option_map _ ?M = Some y =>
      assert (Hm : exists kss, M = Some kss); [|destruct Hm as [kss ->]; eexists; reflexivity] end.
    apply mapM_some. intros el Hel. apply in_rev in Hel.
    destruct el as [c|s e']; [eexists; reflexivity|].
    pose proof (path_facts _ _ _ _ (ppaths_ok g cstart w chart _ _ _ _ Hpe)) as (_ & _ & Hels).
    destruct (Hels s e' Hel) as (Hin & Hf & Hlo & Hse & Hhi & _).
    assert (Hsmall : e' - iorg s < e - iorg it -> exists ts, trees f cg chart w s e' = Some ts).
    { intro Hlt.
      assert (HinN : In (iname s) (rnames cg)).
      { unfold rnames. apply in_map_iff. exists (iname s, iexpr s). split; [reflexivity|].
        apply alts_rules. apply (colok e' s Hin). }
      assert (HN : 1 <= N).
      { unfold N. unfold rnames in HinN. apply in_map_iff in HinN as (r & _ & Hr).
        destruct (rules cg); [destruct Hr | simpl; lia]. }
      apply (IH s e' (N - 1) Hin Hf).
      - replace (S (N - 1)) with N by lia. apply acyc_name. exact HinN.
      - assert (S (e' - iorg s) * N <= (e - iorg it) * N) by (apply Nat.mul_le_mono_r; lia).
        simpl in H. lia. }
    destruct (Nat.eq_dec (iorg s) (iorg it)) as [Eo|No]; [|apply Hsmall; lia].
    destruct (Nat.eq_dec e' e) as [Ee|Ne]; [|apply Hsmall; lia].
    (* same span: one unit step *)
    pose proof (same_span_usucc it e s e' pe Hit Hpe Hel Eo Ee) as Hsucc.
    simpl in Hwalk.
    assert (Hw' : walkb cg eps m (iname s) = false).
    { destruct (walkb cg eps m (iname s)) eqn:Ew; [|reflexivity].
      assert (Hex : existsb (walkb cg eps m) (usucc cg eps (iname it)) = true)
        by (apply existsb_exists; exists (iname s); split; assumption).
      rewrite Hex in Hwalk. discriminate. }
    destruct m as [|m']; [discriminate Hw'|].
    apply (IH s e' m' Hin Hf Hw'). rewrite Eo, Ee. lia.
  Qed.

  (* the accepting item of the last column *)
  Theorem trees_total fuel st :
    In st (nth (length w) chart []) -> finished st = true ->
    N * S (length w) <= fuel ->
    exists ts, trees fuel cg chart w st (length w) = Some ts.
  Proof.
    intros Hin Hf Hfuel.
    assert (HinN : In (iname st) (rnames cg)).
    { unfold rnames. apply in_map_iff. exists (iname st, iexpr st). split; [reflexivity|].
      apply alts_rules. apply (colok _ st Hin). }
    assert (HN : 1 <= N).
    { unfold N. unfold rnames in HinN. apply in_map_iff in HinN as (r & _ & Hr).
      destruct (rules cg); [destruct Hr | simpl; lia]. }
    apply (trees_total_gen fuel st (length w) (N - 1) Hin Hf).
    - replace (S (N - 1)) with N by lia. apply acyc_name. exact HinN.
    - assert ((length w - iorg st) * N <= length w * N) by (apply Nat.mul_le_mono_r; lia). lia.
  Qed.
End Term.

(* ---------------- statements exported in Props/C10.v ---------------- *)
(* with the fuel of the chart the enumeration of the forest below the accepting item answers *)
Theorem trees_enough_fuel : forall g cstart fxA fxB fuel start w chart st,
  good_grammar g -> NoDup (map fst g) -> defined g WRAP = false -> defined g start = true ->
  (fxA = true \/ K_multistart g start = false) ->
  acyclicb (cgram g cstart) = true ->
  fuel_bound (cgram g cstart) (length w) <= fuel ->
  chart_of fxA fuel (cgram g cstart) start w = Ok chart ->
  find (accepting fxB start) (last chart []) = Some st ->
  exists ts, ts <> [] /\ trees fuel (cgram g cstart) chart w st (length w) = Some ts.
Proof.
  intros g cstart fxA fxB fuel start w chart st Hgood Hnd Hw Hds HgA Hac Hf Hc Hfind.
  pose proof (chart_sound g cstart Hgood Hnd Hw fxA fuel start w chart Hds HgA Hc) as Hok.
  pose proof Hgood as (Hk & _).
  apply find_some in Hfind as [Hin Hacc].
  unfold accepting in Hacc. apply andb_true_iff in Hacc as [Hacc _]. apply andb_true_iff in Hacc as [_ Hfin].
  destruct Hok as [Hl Hitems].
  assert (Hin' : In st (nth (length w) chart [])).
  { rewrite (nth_error_nth _ _ _ (last_nth w chart Hl)). exact Hin. }
  destruct (trees_total g cstart start w chart (cgc_keys g cstart Hk) (conj Hl Hitems) Hac fuel st Hin' Hfin)
    as [ts Hts].
  - pose proof (rules_le_shapes (cgram g cstart)) as Hle. unfold fuel_bound in Hf.
    assert (length (rules (cgram g cstart)) * S (length w) <= item_shapes (cgram g cstart) * S (length w))
      by (apply Nat.mul_le_mono_r; exact Hle). lia.
  - exists ts. split; [eapply trees_nonempty; exact Hts | exact Hts].
Qed.

(* parse_complete: the "if" half of line 1 of the property (no assumption on the constructor's
   start symbol) *)
Theorem parse_complete : forall g cstart fxA fxB fuel start w k,
  good_grammar g -> NoDup (map fst g) -> defined g WRAP = false ->
  defined g start = true ->
  (fxA = true \/ K_multistart g start = false) ->
  acyclicb (cgram g cstart) = true ->
  fuel_bound (cgram g cstart) (length w) <= fuel -> 0 < k ->
  L g start w ->
  exists ts, ts <> [] /\ earley_parse fxA fxB fuel g cstart start w k = Ok ts.
Proof.
  intros g cstart fxA fxB fuel start w k Hgood Hnd Hw Hds HgA Hac Hf Hk HL.
  destruct (chart_enough_fuel g cstart fxA fuel start w Hgood Hw Hds HgA Hf) as (chart & Hc).
  pose proof Hgood as (Hkeys & _).
  pose proof (accept_complete_nocs g cstart Hkeys Hw fxA fxB fuel start w chart Hds HL Hc) as Hex.
  unfold earley_parse. rewrite Hw, Hc.
  destruct (find (accepting fxB start) (last chart [])) as [st|] eqn:Hfind.
  - destruct (trees_enough_fuel g cstart fxA fxB fuel start w chart st Hgood Hnd Hw Hds HgA Hac Hf Hc Hfind)
      as (ts0 & Hne & Htr).
    rewrite Htr. exists (firstn k (map (prune g) ts0)). split; [|reflexivity].
    destruct ts0 as [|t0 ts0]; [congruence|]. destruct k as [|k]; [lia|]. simpl. discriminate.
  - exfalso. apply existsb_exists in Hex as (st & Hin & Hacc).
    apply (find_none _ _ Hfind) in Hin. congruence.
Qed.

(* line 1 of the property: parse answers a non-empty list of trees exactly for the members *)
Theorem parse_iff : forall g cstart fxA fxB fuel start w k,
  good_grammar g -> NoDup (map fst g) -> defined g WRAP = false ->
  defined g start = true -> defined g cstart = true ->
  (fxA = true \/ K_multistart g start = false) ->
  (fxB = true \/ K_recstart g cstart start = false) ->
  acyclicb (cgram g cstart) = true ->
  fuel_bound (cgram g cstart) (length w) <= fuel -> 0 < k ->
  ((exists ts, ts <> [] /\ earley_parse fxA fxB fuel g cstart start w k = Ok ts) <-> L g start w).
Proof.
  intros g cstart fxA fxB fuel start w k Hgood Hnd Hw Hds Hcs HgA HgB Hac Hf Hk. split.
  - intros (ts & Hne & Hp). destruct ts as [|t ts]; [congruence|].
    apply (parse_sound_full fxA fxB fuel g cstart start w k (t :: ts) t Hgood Hnd Hw Hds Hcs HgA HgB Hp).
    left. reflexivity.
  - apply parse_complete; assumption.
Qed.

(* the three outcomes of parse, given the fuel bound: a member gets trees, a non-member
   SyntaxError; nothing else happens *)
Theorem parse_total : forall g cstart fxA fxB fuel start w k,
  good_grammar g -> NoDup (map fst g) -> defined g WRAP = false ->
  defined g start = true -> defined g cstart = true ->
  (fxA = true \/ K_multistart g start = false) ->
  (fxB = true \/ K_recstart g cstart start = false) ->
  acyclicb (cgram g cstart) = true ->
  fuel_bound (cgram g cstart) (length w) <= fuel -> 0 < k ->
  (L g start w /\ exists t ts, earley_parse fxA fxB fuel g cstart start w k = Ok (t :: ts) /\
     forall t', In t' (t :: ts) ->
       wf_tree g t' /\ is_openT t' = false /\ lbl t' = start /\ yield t' = w) \/
  (~ L g start w /\ earley_parse fxA fxB fuel g cstart start w k = Raise SyntaxErr).
Proof.
  intros g cstart fxA fxB fuel start w k Hgood Hnd Hw Hds Hcs HgA HgB Hac Hf Hk.
  destruct (chart_enough_fuel g cstart fxA fuel start w Hgood Hw Hds HgA Hf) as (chart & Hc).
  destruct (find (accepting fxB start) (last chart [])) as [st|] eqn:Hfind.
  - left.
    destruct (trees_enough_fuel g cstart fxA fxB fuel start w chart st Hgood Hnd Hw Hds HgA Hac Hf Hc Hfind)
      as (ts0 & Hne & Htr).
    assert (Hp : earley_parse fxA fxB fuel g cstart start w k = Ok (firstn k (map (prune g) ts0)))
      by (unfold earley_parse; rewrite Hw, Hc, Hfind, Htr; reflexivity).
    destruct ts0 as [|t0 ts0]; [congruence|]. destruct k as [|k]; [lia|]. simpl in Hp.
    assert (Hall : forall t', In t' (prune g t0 :: firstn k (map (prune g) ts0)) ->
       wf_tree g t' /\ is_openT t' = false /\ lbl t' = start /\ yield t' = w /\ L g start w).
    { intros t' Ht'. exact (parse_sound_full fxA fxB fuel g cstart start w (S k) _ t' Hgood Hnd Hw Hds Hcs HgA HgB Hp Ht'). }
    split; [apply (Hall (prune g t0)); left; reflexivity|].
    eexists _, _. split; [exact Hp|]. intros t' Ht'. destruct (Hall t' Ht') as (H1 & H2 & H3 & H4 & _). auto.
  - right.
    assert (Hp : earley_parse fxA fxB fuel g cstart start w k = Raise SyntaxErr)
      by (unfold earley_parse; rewrite Hw, Hc, Hfind; reflexivity).
    split; [|exact Hp]. apply (reject_sound g cstart fxA fxB fuel start w k Hgood Hds Hcs Hp).
Qed.
