From ISLA Require Import Grammar.

Lemma alt_eqb_eq a b : alt_eqb a b = true <-> a = b.
Proof.
  revert b; induction a as [|x a IH]; intros [|y b]; simpl; split; intro H;
    try reflexivity; try discriminate.
  - apply andb_true_iff in H as [H1 H2]. apply str_eqb_eq in H1. apply IH in H2. congruence.
  - inversion H; subst. rewrite str_eqb_refl. simpl. apply IH. reflexivity.
Qed.

Lemma has_alt_spec g A a : has_alt g A a = true <-> In a (alts g A).
Proof.
  unfold has_alt. rewrite existsb_exists. split.
  - intros (b & Hin & E). apply alt_eqb_eq in E. subst. assumption.
  - intro H. exists a. split; [assumption | apply alt_eqb_eq; reflexivity].
Qed.

Lemma is_eps_child_spec t : is_eps_child t = true <-> exists j, t = Node [] j false [].
Proof.
  destruct t as [[|c l] j [|] [|k ks]]; simpl; split; try discriminate;
    try (intros [j' H]; discriminate).
  - intros _. exists j. reflexivity.
  - reflexivity.
Qed.

Theorem wf_treeb_spec g t : wf_treeb g t = true <-> wf_tree g t.
Proof.
  induction t as [l i o ks IH] using tree_ind'. split.
  - simpl. destruct o.
    + destruct ks; rewrite ?andb_true_iff; [|intros [_ H]; discriminate].
      intros [[H1 H2] _]. constructor; assumption.
    + destruct ks as [|k ks].
      * rewrite orb_true_iff, negb_true_iff, has_alt_spec. intros [H|H].
        -- constructor; assumption.
        -- destruct (is_nt l) eqn:E; [apply wf_eps_parser | constructor]; assumption.
      * rewrite andb_true_iff, orb_true_iff, !andb_true_iff, !has_alt_spec.
        intros [Hnt [[Ha Hk]|[Ha Hk]]].
        -- apply wf_inner; try assumption; try discriminate.
           rewrite forallb_forall in Hk. rewrite Forall_forall in *. intros x Hx. apply IH; auto.
        -- destruct ks; [|discriminate]. apply is_eps_child_spec in Hk as [j ->].
           apply wf_eps_fuzzer; assumption.
  - intro H.
    inversion H as [A i' HA HD | w i' Hw | A i' ks' HA Hne Hin Hall | A i' HA Hin | A i' j HA Hin];
      subst; simpl.
    + rewrite HA, HD. reflexivity.
    + rewrite Hw. reflexivity.
    + destruct ks as [|k ks']; [contradiction|]. rewrite HA. simpl. apply orb_true_iff. left.
      apply andb_true_iff. split; [apply has_alt_spec; assumption|].
      apply (proj2 (forallb_forall (wf_treeb g) (k :: ks'))).
      intros x Hx. rewrite Forall_forall in *. apply IH; auto.
    + apply orb_true_iff. right. apply has_alt_spec. assumption.
    + rewrite HA. simpl. apply orb_true_iff. right. apply andb_true_iff. split; [|reflexivity].
      apply has_alt_spec. assumption.
Qed.

(* ---- a closed valid tree witnesses membership of its string in the language ---- *)

Lemma derives_nil_inv g u : derives g [] u -> u = [].
Proof. intro H. inversion H. reflexivity. Qed.

Lemma derives_app g xs ys u v : derives g xs u -> derives g ys v -> derives g (xs ++ ys) (u ++ v).
Proof.
  induction 1 as [|w rest u' Hw Hd IH|A al rest u1 u2 HA Hin Hal _ Hrest IH]; intro Hys; simpl.
  - assumption.
  - rewrite <- app_assoc. constructor; auto.
  - rewrite <- app_assoc. econstructor; eauto.
Qed.

Lemma derives_single_cons g x rest u v :
  derives g [x] u -> derives g rest v -> derives g (x :: rest) (u ++ v).
Proof. intros H1 H2. change (x :: rest) with ([x] ++ rest). apply derives_app; assumption. Qed.

Lemma derives_children g ks :
  Forall (fun k => derives g [lbl k] (yield k)) ks -> derives g (map lbl ks) (flat_map yield ks).
Proof.
  induction 1 as [|k ks Hk _ IH]; simpl; [constructor|]. apply derives_single_cons; assumption.
Qed.

Theorem wf_closed_yield g t :
  wf_tree g t -> is_openT t = false -> L g (lbl t) (yield t).
Proof.
  unfold L. induction t as [l i o ks IH] using tree_ind'. intros Hwf Hcl.
  inversion Hwf as [A i' HA HD | w i' Hw | A i' ks' HA Hne Hin Hall | A i' HA Hin | A i' j HA Hin];
    subst; simpl in *.
  - discriminate.
  - rewrite Hw. rewrite <- (app_nil_r l) at 2. constructor; [assumption | constructor].
  - destruct ks as [|k ks']; [contradiction|].
    rewrite <- (app_nil_r (flat_map yield (k :: ks'))).
    eapply d_nt; [assumption | exact Hin | | constructor].
    apply derives_children. rewrite Forall_forall in *. intros x Hx. apply IH; auto.
    destruct (is_openT x) eqn:E; [|reflexivity].
    assert (existsb is_openT (k :: ks') = true) by (apply existsb_exists; eauto). congruence.
  - rewrite HA. change (derives g [l] ([] ++ [])). eapply d_nt; eauto; constructor.
  - change (derives g [l] ([] ++ [])). eapply d_nt; eauto; constructor.
Qed.

Example wf_example :
  let g := [([60;115;62]%N, [[[60;97;62]%N; [120]%N]; []]); ([60;97;62]%N, [[]; [[121]%N]])] in
  wf_treeb g (Node [60;115;62]%N 0 false
                [Node [60;97;62]%N 1 false [Node [] 2 false []]; Node [120]%N 3 false []]) = true
  /\ wf_treeb g (Node [60;115;62]%N 0 false [Node [120]%N 3 false []]) = false.
Proof. split; reflexivity. Qed.
