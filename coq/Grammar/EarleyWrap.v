(* C10 — soundness of the returned trees also for parsers whose constructor start symbol has
   several alternatives (Parser.__init__ then adds the rule  <> ::= cstart  to cgrammar).
   EarleyTrees.trees_sound assumed that rule absent; here it is shown harmless: no item of the chart
   is ever named "<>", so every item is an item of the single-character form of g. *)
From ISLA Require Import Grammar GrammarFacts Earley EarleyFacts EarleyPrune EarleyTop EarleyTrees
  EarleyComplete EarleyForest.
From Coq Require Import Lia PeanoNat.

Lemma In_set_key (g : grammar) K al r : In r (set_key g K al) -> In r g \/ r = (K, al).
Proof.
  induction g as [|[B bl] g IH]; simpl.
  - intros [H|[]]. right. symmetry. exact H.
  - destruct (str_eqb K B) eqn:E; simpl.
    + apply str_eqb_eq in E. subst B. intros [H|H]; [right; symmetry; exact H | left; right; exact H].
    + intros [H|H]; [left; left; exact H|]. destruct (IH H) as [H'|H']; [left; right; exact H' | right; exact H'].
Qed.

Section Wrap.
  Variable g : grammar.
  Variable cstart start : str.
  Variable w : str.
  Variable chart : list column.
  Hypothesis Hgood : good_grammar g.
  Hypothesis Hnd : NoDup (map fst g).
  Hypothesis Hw : defined g WRAP = false.
  Hypothesis Hcs : defined g cstart = true.
  Hypothesis Hds : defined g start = true.
  Let cg := cgram g cstart.
  Hypothesis Hchart : chart_ok cg w start chart.
  Hypothesis Hforest : forest_total g cstart w chart.

  Lemma sct_alt_no_wrap al : ~ In WRAP (sct_alt g al).
  Proof.
    unfold sct_alt. intro H. apply in_flat_map in H as (tok & _ & H). unfold sct_tok in H.
    destruct (defined g tok) eqn:Ed.
    - destruct H as [E|[]]. subst tok. congruence.
    - apply in_map_iff in H as (c & E & _). discriminate E.
  Qed.

  Lemma no_wrap_rhs : occurs_rhs cg WRAP = false.
  Proof.
    destruct (occurs_rhs cg WRAP) eqn:E; [|reflexivity]. exfalso.
    unfold occurs_rhs in E. apply existsb_exists in E as (r & Hr & E).
    apply existsb_exists in E as (al & Hal & E). apply mem_In in E.
    assert (Hsct : In r (sct g) -> False).
    { intro H. unfold sct in H. apply in_map_iff in H as (r0 & <- & _). simpl in Hal.
      apply in_map_iff in Hal as (al0 & <- & _). apply (sct_alt_no_wrap al0 E). }
    unfold cg, cgram in Hr. destruct (Nat.eqb (length (alts g cstart)) 1); [exact (Hsct Hr)|].
    apply In_set_key in Hr as [Hr|Hr]; [exact (Hsct Hr)|]. subst r. simpl in Hal.
    destruct Hal as [<-|[]]. destruct E as [E|[]]. subst cstart. congruence.
  Qed.

  Lemma item_in_g e it : In it (nth e chart []) ->
    defined g (iname it) = true /\ exists al, sct_alt g al = iexpr it /\ In al (alts g (iname it)).
  Proof.
    intro Hin. pose proof (col_ok g cstart start w chart Hchart e it Hin) as (_ & _ & Hdef & Hexpr & _ & Horg).
    fold cg in Hdef, Hexpr, Horg.
    assert (Hd : defined g (iname it) = true).
    { destruct (cg_defined g cstart (iname it) Hdef) as [H|H]; [exact H|]. exfalso.
      destruct Horg as [[Hs _]|Hocc].
      - rewrite H in Hs. subst start. congruence.
      - rewrite H, no_wrap_rhs in Hocc. discriminate. }
    split; [exact Hd|].
    unfold cg in Hexpr. rewrite (cg_alts g cstart Hw (iname it) Hd) in Hexpr.
    apply in_map_iff in Hexpr as (al & E & Hal). exists al. split; assumption.
  Qed.

  Theorem trees_sound_wrap : forall fuel it e ts,
    In it (nth e chart []) -> finished it = true ->
    trees fuel cg chart w it e = Some ts -> forall t, In t ts -> raw_ok g w it e t.
  Proof.
    induction fuel as [|f IH]; intros it e ts Hin Hfin H t Ht; simpl in H; [discriminate|].
    pose proof (col_ok g cstart start w chart Hchart e it Hin) as (Hoe & Hew & _ & _ & Hder & _).
    fold cg in Hder.
    destruct (item_in_g e it Hin) as (Hdef & al & Eal & Hal).
    destruct Hgood as (Hk & Htok & Hadj).
    assert (Hdone : firstn (idot it) (iexpr it) = iexpr it).
    { apply firstn_all2. unfold finished in Hfin. apply Nat.leb_le in Hfin. exact Hfin. }
    rewrite Hdone in Hder.
    destruct (iexpr it) as [|x0 xs] eqn:Ee.
    - inversion H; subst ts. destruct Ht as [<-|[]].
      assert (al = []).
      { apply (sct_alt_nil g al); [|exact Eal]. intros x Hx. apply (Htok (iname it) al x Hal Hx). }
      subst al. inversion Hder; subst. unfold raw_ok, leaf. simpl. rewrite (Hk _ Hdef).
      repeat split; try congruence.
      apply (ct_node g (iname it) [] []); [exact Hdef | exact Hal | reflexivity | constructor].
    - rewrite <- Ee in *.
      destruct (ppaths cg chart w (iorg it) (rev (iexpr it)) e) as [|pe0 pes0] eqn:Ep.
      + exfalso. apply (Hforest it e Hin Hfin); [rewrite Ee; discriminate | exact Ep].
      + rewrite <- Ep in H. clear Ep pe0 pes0.
        remember (ppaths cg chart w (iorg it) (rev (iexpr it)) e) as pes eqn:Ep.
        match type of H with option_map _ ?m = _ => destruct m as [tss|] eqn:Em end; [|discriminate].
        simpl in H. inversion H; subst ts. apply in_concat in Ht as (l & Hl & Htl).
        destruct (Forall2_In_r _ _ _ _ (mapM_Forall2 _ _ _ Em) Hl) as (pe & Hpe & HF).
        simpl in HF.
        match type of HF with option_map _ ?m = _ => destruct m as [kss|] eqn:Ek end; [|discriminate].
        simpl in HF. inversion HF; subst l. apply in_map_iff in Htl as (kids & <- & Hkids).
        rewrite Ep in Hpe. apply (ppaths_ok g cstart w chart) in Hpe.
        pose proof (mapM_Forall2 _ _ _ Ek) as F1. pose proof (product_In _ _ Hkids) as F2.
        assert (F3 : Forall2 (fun el k => forall var st til', el_ok w chart var st til' el -> span_ok g w var st til' k)
                             (rev pe) kids).
        { eapply Forall2_compose; [|exact F1|exact F2].
          intros el l k Hel Hk' var st til' Hok. simpl in Hel. destruct el as [c|s e'].
          - inversion Hel; subst l. destruct Hk' as [<-|[]].
            destruct Hok as (-> & ch & -> & Hn & ->). unfold span_ok.
            repeat split; [apply ct_leaf | | lia].
            rewrite yield_leaf_char. rewrite (sub_snoc w st st ch Hn (le_n _)), sub_nil. reflexivity.
          - destruct Hok as (-> & Hs & Hfs & Hns & Hos).
            destruct (IH s til' l Hs Hfs Hel k Hk') as (Hc & Hlb & Hy).
            pose proof (col_ok g cstart start w chart Hchart til' s Hs) as (Hle & _).
            unfold span_ok. rewrite <- Hns, <- Hos. repeat split; assumption. }
        apply Forall2_rev_l in F3.
        destruct (path_kids g w chart _ _ _ _ _ Hpe F3) as (Hl' & Hy' & Hc' & _).
        rewrite rev_involutive in Hy'. rewrite map_rev in Hl'.
        apply (f_equal (@rev str)) in Hl'. rewrite !rev_involutive in Hl'.
        unfold raw_ok. simpl. repeat split.
        * apply (ct_node g (iname it) al kids); [exact Hdef | exact Hal | congruence |].
          apply Forall_rev in Hc'. rewrite rev_involutive in Hc'. exact Hc'.
        * destruct kids as [|k0 kids']; [|exact Hy'].
          simpl in Hl'. rewrite Ee in Hl'. discriminate.
  Qed.
End Wrap.

(* every returned tree is a valid, closed derivation tree of g, rooted in the requested nonterminal,
   spelling exactly the input: no forest hypothesis, no restriction on the constructor's start symbol *)
Theorem parse_sound_full : forall fxA fxB fuel g cstart start w k ts t,
  good_grammar g -> NoDup (map fst g) -> defined g WRAP = false ->
  defined g start = true -> defined g cstart = true ->
  (fxA = true \/ K_multistart g start = false) ->
  (fxB = true \/ K_recstart g cstart start = false) ->
  earley_parse fxA fxB fuel g cstart start w k = Ok ts -> In t ts ->
  wf_tree g t /\ is_openT t = false /\ lbl t = start /\ yield t = w /\ L g start w.
Proof.
  intros fxA fxB fuel g cstart start w k ts t Hgood Hnd Hw Hds Hcs HgA HgB H Hin.
  unfold earley_parse in H. rewrite Hw in H.
  destruct (chart_of fxA fuel (cgram g cstart) start w) as [chart|e0] eqn:Hch; [|discriminate].
  destruct (find (accepting fxB start) (last chart [])) as [st|] eqn:Hfind; [|discriminate].
  destruct (trees fuel (cgram g cstart) chart w st (length w)) as [ts0|] eqn:Htr; [|discriminate].
  inversion H; subst ts. apply In_firstn in Hin. apply in_map_iff in Hin as (t0 & <- & Ht0).
  apply find_some in Hfind as [Hst Hacc].
  pose proof (chart_sound g cstart Hgood Hnd Hw fxA fuel start w chart Hds HgA Hch) as Hok.
  assert (Hcol : nth (length w) chart [] = last chart []).
  { destruct Hok as [Hl _]. apply nth_error_nth. apply last_nth. exact Hl. }
  rewrite <- Hcol in Hst.
  unfold accepting in Hacc. apply andb_true_iff in Hacc as [Hacc Ho].
  apply andb_true_iff in Hacc as [Hn Hf]. apply str_eqb_eq in Hn.
  pose proof (forest_totalb_sound g cstart w chart
                (forest_total_holds g cstart fxA fuel start w chart Hgood Hnd Hw Hds Hcs HgA Hch)) as Hft.
  destruct (trees_sound_wrap g cstart start w chart Hgood Hw Hcs Hds Hok Hft fuel st (length w) ts0 Hst Hf Htr t0 Ht0)
    as (Hct & Hlb & Hy).
  assert (Horg : iorg st = 0).
  { pose proof (col_ok g cstart start w chart Hok (length w) st Hst) as (_ & _ & _ & _ & _ & [[_ H0]|Hocc]);
      [exact H0|].
    destruct HgB as [Hfx|Hno].
    - subst fxB. simpl in Ho. apply Nat.eqb_eq in Ho. exact Ho.
    - unfold K_recstart in Hno. rewrite Hn in Hocc. congruence. }
  rewrite Horg, sub_full in Hy. rewrite Hn in Hlb.
  destruct (prune_ok g t0 Hgood Hct) as (Hwf & Hcl & Hl' & Hy'); [rewrite Hlb; exact Hds|].
  assert (HL : L g start w).
  { pose proof (wf_closed_yield g (prune g t0) Hwf Hcl) as HLL. rewrite Hl', Hy', Hlb, Hy in HLL. exact HLL. }
  repeat split; try assumption; congruence.
Qed.
